//! Span-erased AST dumps and the formatter / layout relations (C08, C09, C10).

use crate::front::panic_msg;
use incan::frontend::lexer::{self, Token, TokenKind};
use incan::frontend::parser;
use incan_core::lang::punctuation::PunctuationId;
use serde_json::{json, Value};
use std::panic::{catch_unwind, AssertUnwindSafe};

/// Erase every `Span { start, end }` block from a `{:#?}` dump (the same dump `incan --parse` prints).
pub fn erase_spans(dump: &str) -> String {
    let mut out = String::with_capacity(dump.len() / 2);
    let mut lines = dump.lines();
    while let Some(line) = lines.next() {
        let t = line.trim_end();
        if t.ends_with("Span {") && !t.ends_with("Spanned {") {
            let indent = line.len() - line.trim_start().len();
            let head = &t[..t.len() - "Span {".len()];
            out.push_str(head);
            out.push_str("Span\n");
            // skip to the closing line at the same indentation
            for l in lines.by_ref() {
                let ind = l.len() - l.trim_start().len();
                if ind == indent && l.trim_start().starts_with('}') {
                    break;
                }
            }
        } else {
            out.push_str(t);
            out.push('\n');
        }
    }
    out
}

pub enum Parsed {
    Ok(String),
    LexErr(String),
    ParseErr(String),
    Panic(String),
}

pub fn parse_dump(src: &str) -> Parsed {
    match catch_unwind(AssertUnwindSafe(|| {
        let toks = match lexer::lex(src) {
            Ok(t) => t,
            Err(e) => return Parsed::LexErr(e.first().map(|x| x.message.clone()).unwrap_or_default()),
        };
        match parser::parse(&toks) {
            Ok(a) => Parsed::Ok(erase_spans(&format!("{:#?}", a))),
            Err(e) => Parsed::ParseErr(e.first().map(|x| format!("{} @{}", x.message, x.span.start)).unwrap_or_default()),
        }
    })) {
        Ok(p) => p,
        Err(p) => Parsed::Panic(panic_msg(p)),
    }
}

fn first_diff(a: &str, b: &str) -> String {
    for (k, (x, y)) in a.lines().zip(b.lines()).enumerate() {
        if x != y {
            return format!("line {k}: `{}` vs `{}`", x.trim(), y.trim());
        }
    }
    format!("length {} vs {} lines", a.lines().count(), b.lines().count())
}

/// op "ast": span-erased dump (or error) of one source.
pub fn ast(req: &Value) -> Value {
    let src = req.get("src").and_then(|v| v.as_str()).unwrap_or("");
    match parse_dump(src) {
        Parsed::Ok(d) => json!({"ok": true, "dump": d}),
        Parsed::LexErr(m) => json!({"ok": false, "stage": "lex", "msg": m}),
        Parsed::ParseErr(m) => json!({"ok": false, "stage": "parse", "msg": m}),
        Parsed::Panic(m) => json!({"ok": false, "stage": "panic", "msg": m}),
    }
}

fn tok_class(t: &Token) -> &'static str {
    match &t.kind {
        TokenKind::String(_) => "str",
        TokenKind::FString(_) => "fstr",
        TokenKind::Bytes(_) => "bytes",
        TokenKind::Newline => "nl",
        TokenKind::Indent => "indent",
        TokenKind::Dedent => "dedent",
        TokenKind::Eof => "eof",
        TokenKind::Punctuation(p) => match p {
            PunctuationId::LParen | PunctuationId::LBracket | PunctuationId::LBrace => "open",
            PunctuationId::RParen | PunctuationId::RBracket | PunctuationId::RBrace => "close",
            PunctuationId::Comma => "comma",
            _ => "punct",
        },
        TokenKind::Keyword(_) => "kw",
        TokenKind::Operator(_) => "op",
        TokenKind::Ident(_) => "ident",
        TokenKind::Int(_) => "int",
        TokenKind::Float(_) => "float",
        TokenKind::Ellipsis => "ellipsis",
    }
}

/// op "tokens": token classes with byte spans (used by the layout-edit generator to avoid literals).
pub fn tokens(req: &Value) -> Value {
    let src = req.get("src").and_then(|v| v.as_str()).unwrap_or("");
    match catch_unwind(AssertUnwindSafe(|| lexer::lex(src))) {
        Ok(Ok(toks)) => {
            let v: Vec<Value> = toks.iter().map(|t| json!([tok_class(t), t.span.start, t.span.end])).collect();
            json!({"ok": true, "tokens": v})
        }
        Ok(Err(e)) => json!({"ok": false, "msg": e.first().map(|x| x.message.clone()).unwrap_or_default()}),
        Err(p) => json!({"ok": false, "msg": format!("panic: {}", panic_msg(p))}),
    }
}

/// Layout hygiene of formatter output: tabs / trailing whitespace outside string-like tokens.
fn hygiene(y: &str) -> Vec<String> {
    let mut bad = Vec::new();
    let toks = match lexer::lex(y) {
        Ok(t) => t,
        Err(_) => return bad, // not lexable: reported elsewhere
    };
    let strs: Vec<(usize, usize)> = toks
        .iter()
        .filter(|t| matches!(t.kind, TokenKind::String(_) | TokenKind::FString(_) | TokenKind::Bytes(_)))
        .map(|t| (t.span.start, t.span.end))
        .collect();
    let inside = |pos: usize| strs.iter().any(|(s, e)| *s <= pos && pos < *e);
    let mut off = 0usize;
    for (ln, line) in y.split('\n').enumerate() {
        for (i, b) in line.bytes().enumerate() {
            if b == b'\t' && !inside(off + i) {
                bad.push(format!("tab at line {} col {}", ln + 1, i + 1));
                break;
            }
        }
        let trimmed = line.trim_end_matches(|c| c == ' ' || c == '\t' || c == '\r');
        if trimmed.len() != line.len() && !inside(off + trimmed.len()) {
            bad.push(format!("trailing whitespace at line {}", ln + 1));
        }
        off += line.len() + 1;
    }
    bad
}

/// op "fmtcmp": x -> parse(x); y = fmt(x); parse(y); fmt(y); hygiene(y).
pub fn fmtcmp(req: &Value) -> Value {
    let src = req.get("src").and_then(|v| v.as_str()).unwrap_or("");
    let want_out = req.get("want_out").and_then(|v| v.as_bool()).unwrap_or(false);
    let d1 = match parse_dump(src) {
        Parsed::Ok(d) => d,
        Parsed::Panic(m) => return json!({"parsed": false, "panic": m}),
        _ => return json!({"parsed": false}),
    };
    let y = match catch_unwind(AssertUnwindSafe(|| incan::format_source(src))) {
        Err(p) => return json!({"parsed": true, "fmt": "panic", "msg": panic_msg(p)}),
        Ok(Err(e)) => return json!({"parsed": true, "fmt": "err", "msg": format!("{e}")}),
        Ok(Ok(y)) => y,
    };
    let mut r = serde_json::Map::new();
    r.insert("parsed".into(), json!(true));
    r.insert("fmt".into(), json!("ok"));
    if want_out {
        r.insert("out".into(), json!(y));
    }
    match parse_dump(&y) {
        Parsed::Ok(d2) => {
            r.insert("reparse".into(), json!("ok"));
            if d1 == d2 {
                r.insert("same".into(), json!(true));
            } else {
                r.insert("same".into(), json!(false));
                r.insert("first_diff".into(), json!(first_diff(&d1, &d2)));
                if d1.len() + d2.len() < 8_000_000 {
                    r.insert("d1".into(), json!(d1));
                    r.insert("d2".into(), json!(d2));
                }
                r.insert("out".into(), json!(y));
            }
        }
        Parsed::LexErr(m) => {
            r.insert("reparse".into(), json!(format!("lexerr: {m}")));
            r.insert("out".into(), json!(y));
        }
        Parsed::ParseErr(m) => {
            r.insert("reparse".into(), json!(format!("parseerr: {m}")));
            r.insert("out".into(), json!(y));
        }
        Parsed::Panic(m) => {
            r.insert("reparse".into(), json!(format!("panic: {m}")));
            r.insert("out".into(), json!(y));
        }
    }
    // idempotence
    match catch_unwind(AssertUnwindSafe(|| incan::format_source(&y))) {
        Ok(Ok(z)) => {
            r.insert("idem".into(), json!(z == y));
            if z != y {
                r.insert("first_idem_diff".into(), json!(first_diff(&y, &z)));
                r.insert("out".into(), json!(y));
                r.insert("out2".into(), json!(z));
            }
        }
        Ok(Err(_)) => {
            r.insert("idem".into(), json!("fmt2-err"));
        }
        Err(p) => {
            r.insert("idem".into(), json!(format!("fmt2-panic: {}", panic_msg(p))));
        }
    }
    // final newline: exactly one
    let nl_ok = y.ends_with('\n') && !y.ends_with("\n\n");
    r.insert("final_newline_ok".into(), json!(nl_ok || y.is_empty()));
    r.insert("empty_out".into(), json!(y.is_empty()));
    r.insert("hygiene".into(), json!(hygiene(&y)));
    Value::Object(r)
}

/// op "layout": base source + variants; each variant must have the same span-erased AST.
pub fn layout(req: &Value) -> Value {
    let src = req.get("src").and_then(|v| v.as_str()).unwrap_or("");
    let d0 = match parse_dump(src) {
        Parsed::Ok(d) => d,
        _ => return json!({"parsed": false}),
    };
    let mut res: Vec<Value> = Vec::new();
    if let Some(vs) = req.get("variants").and_then(|v| v.as_array()) {
        for v in vs {
            let s = v.as_str().unwrap_or("");
            res.push(match parse_dump(s) {
                Parsed::Ok(d) => {
                    if d == d0 {
                        json!("same")
                    } else {
                        json!(format!("diff: {}", first_diff(&d0, &d)))
                    }
                }
                Parsed::LexErr(m) => json!(format!("lexerr: {m}")),
                Parsed::ParseErr(m) => json!(format!("parseerr: {m}")),
                Parsed::Panic(m) => json!(format!("panic: {m}")),
            });
        }
    }
    json!({"parsed": true, "results": res})
}
