//! C11 (totality + diagnostic well-formedness) and C03/C07 (type-check verdicts with spans).

use incan::backend::IrCodegen;
use incan::frontend::ast::Program;
use incan::frontend::diagnostics::{self, CompileError};
use incan::frontend::{lexer, parser, typechecker};
use serde_json::{json, Value};
use std::panic::{catch_unwind, AssertUnwindSafe};

pub fn panic_msg(p: Box<dyn std::any::Any + Send>) -> String {
    if let Some(s) = p.downcast_ref::<String>() {
        s.clone()
    } else if let Some(s) = p.downcast_ref::<&str>() {
        (*s).to_string()
    } else {
        "<non-string panic>".to_string()
    }
}

/// Check the well-formedness invariants of one diagnostic and render it through all three renderers.
fn check_diag(stage: &str, src: &str, e: &CompileError, problems: &mut Vec<String>) {
    let (s, en) = (e.span.start, e.span.end);
    if s > en {
        problems.push(format!("{stage}: span start {s} > end {en} ({})", e.message));
    }
    if en > src.len() {
        problems.push(format!("{stage}: span end {en} > len {} ({})", src.len(), e.message));
    }
    if s <= src.len() && !src.is_char_boundary(s) {
        problems.push(format!("{stage}: span start {s} not on a char boundary ({})", e.message));
    }
    if en <= src.len() && !src.is_char_boundary(en) {
        problems.push(format!("{stage}: span end {en} not on a char boundary ({})", e.message));
    }
    if let Err(p) = catch_unwind(AssertUnwindSafe(|| diagnostics::format_error("f.incn", src, e))) {
        problems.push(format!("{stage}: format_error panicked: {}", panic_msg(p)));
    }
    if let Err(p) = catch_unwind(AssertUnwindSafe(|| diagnostics::render_miette(e, "f.incn", src))) {
        problems.push(format!("{stage}: render_miette panicked: {}", panic_msg(p)));
    }
    let uri = tower_lsp::lsp_types::Url::parse("file:///f.incn").expect("url");
    match catch_unwind(AssertUnwindSafe(|| {
        incan::lsp::diagnostics::compile_error_to_diagnostic(e, src, &uri)
    })) {
        Err(p) => problems.push(format!("{stage}: compile_error_to_diagnostic panicked: {}", panic_msg(p))),
        Ok(d) => {
            let (a, b) = (d.range.start, d.range.end);
            if (a.line, a.character) > (b.line, b.character) {
                problems.push(format!("{stage}: editor range start > end ({})", e.message));
            }
        }
    }
}

fn check_errs(stage: &str, src: &str, errs: &[CompileError], problems: &mut Vec<String>) {
    if errs.is_empty() {
        problems.push(format!("{stage}: returned Err with an empty diagnostic list"));
    }
    for e in errs {
        check_diag(stage, src, e, problems);
    }
}

/// op "front": push one input through lex / parse / check / format / try_generate.
pub fn front(req: &Value) -> Value {
    let src = req.get("src").and_then(|v| v.as_str()).unwrap_or("");
    let mut problems: Vec<String> = Vec::new();
    let mut stages = serde_json::Map::new();
    let mut ndiag = 0usize;

    // lex
    let toks = match catch_unwind(AssertUnwindSafe(|| lexer::lex(src))) {
        Err(p) => {
            problems.push(format!("lex: panicked: {}", panic_msg(p)));
            stages.insert("lex".into(), json!("panic"));
            None
        }
        Ok(Err(errs)) => {
            ndiag += errs.len();
            check_errs("lex", src, &errs, &mut problems);
            stages.insert("lex".into(), json!("err"));
            None
        }
        Ok(Ok(t)) => {
            stages.insert("lex".into(), json!("ok"));
            Some(t)
        }
    };
    // parse
    let mut ast: Option<Program> = None;
    if let Some(t) = &toks {
        match catch_unwind(AssertUnwindSafe(|| parser::parse(t))) {
            Err(p) => {
                problems.push(format!("parse: panicked: {}", panic_msg(p)));
                stages.insert("parse".into(), json!("panic"));
            }
            Ok(Err(errs)) => {
                ndiag += errs.len();
                check_errs("parse", src, &errs, &mut problems);
                stages.insert("parse".into(), json!("err"));
            }
            Ok(Ok(a)) => {
                stages.insert("parse".into(), json!("ok"));
                ast = Some(a);
            }
        }
    }
    // check + generate
    if let Some(a) = &ast {
        match catch_unwind(AssertUnwindSafe(|| {
            let mut tc = typechecker::TypeChecker::new();
            tc.check_program(a)
        })) {
            Err(p) => {
                problems.push(format!("check: panicked: {}", panic_msg(p)));
                stages.insert("check".into(), json!("panic"));
            }
            Ok(Err(errs)) => {
                ndiag += errs.len();
                check_errs("check", src, &errs, &mut problems);
                stages.insert("check".into(), json!("err"));
            }
            Ok(Ok(())) => {
                stages.insert("check".into(), json!("ok"));
            }
        }
        match catch_unwind(AssertUnwindSafe(|| IrCodegen::new().try_generate(a))) {
            Err(p) => {
                problems.push(format!("emit: panicked: {}", panic_msg(p)));
                stages.insert("emit".into(), json!("panic"));
            }
            Ok(Err(e)) => {
                if let incan::backend::ir::codegen::GenerationError::TypeCheck(errs) = &e {
                    check_errs("emit.typecheck", src, errs, &mut problems);
                }
                let text = format!("{e}");
                if text.trim().is_empty() {
                    problems.push("emit: error with empty message".to_string());
                }
                stages.insert("emit".into(), json!("err"));
            }
            Ok(Ok(_)) => {
                stages.insert("emit".into(), json!("ok"));
            }
        }
    }
    // format (does its own lex+parse)
    match catch_unwind(AssertUnwindSafe(|| incan::format_source(src))) {
        Err(p) => {
            problems.push(format!("format: panicked: {}", panic_msg(p)));
            stages.insert("format".into(), json!("panic"));
        }
        Ok(Err(e)) => {
            if format!("{e}").trim().is_empty() {
                problems.push("format: error with empty message".to_string());
            }
            if ast.is_some() {
                problems.push("format: failed on an input that lexes and parses".to_string());
            }
            stages.insert("format".into(), json!("err"));
        }
        Ok(Ok(_)) => {
            if ast.is_none() {
                problems.push("format: succeeded on an input that does not parse".to_string());
            }
            stages.insert("format".into(), json!("ok"));
        }
    }
    json!({"stages": stages, "problems": problems, "ndiag": ndiag})
}

/// op "check": lex+parse+typecheck `src` with optional dependency modules; report errors with spans,
/// const values / kinds when asked.
pub fn check(req: &Value) -> Value {
    let src = req.get("src").and_then(|v| v.as_str()).unwrap_or("");
    let r = catch_unwind(AssertUnwindSafe(|| {
        let toks = match lexer::lex(src) {
            Ok(t) => t,
            Err(e) => return json!({"stage": "lex", "ok": false, "errors": errs_json(&e)}),
        };
        let ast = match parser::parse(&toks) {
            Ok(a) => a,
            Err(e) => return json!({"stage": "parse", "ok": false, "errors": errs_json(&e)}),
        };
        let mut dep_asts: Vec<(String, Program)> = Vec::new();
        if let Some(deps) = req.get("deps").and_then(|v| v.as_array()) {
            for d in deps {
                let name = d.get("name").and_then(|v| v.as_str()).unwrap_or("m").to_string();
                let dsrc = d.get("src").and_then(|v| v.as_str()).unwrap_or("");
                let dt = match lexer::lex(dsrc) {
                    Ok(t) => t,
                    Err(e) => return json!({"stage": "dep-lex", "ok": false, "errors": errs_json(&e)}),
                };
                match parser::parse(&dt) {
                    Ok(a) => dep_asts.push((name, a)),
                    Err(e) => return json!({"stage": "dep-parse", "ok": false, "errors": errs_json(&e)}),
                }
            }
        }
        let deps: Vec<(&str, &Program)> = dep_asts.iter().map(|(n, a)| (n.as_str(), a)).collect();
        let mut tc = typechecker::TypeChecker::new();
        let res = tc.check_with_imports(&ast, &deps);
        let mut consts = serde_json::Map::new();
        if req.get("consts").and_then(|v| v.as_bool()).unwrap_or(false) {
            let info = tc.type_info();
            for (k, v) in &info.const_values {
                consts.insert(k.clone(), json!(format!("{:?}", v)));
            }
            for (k, v) in &info.const_kinds {
                consts.insert(format!("kind:{k}"), json!(format!("{:?}", v)));
            }
        }
        match res {
            Ok(()) => json!({"stage": "check", "ok": true, "errors": [], "consts": consts}),
            Err(e) => json!({"stage": "check", "ok": false, "errors": errs_json(&e), "consts": consts}),
        }
    }));
    match r {
        Ok(v) => v,
        Err(p) => json!({"stage": "panic", "ok": false, "panic": panic_msg(p), "errors": []}),
    }
}

fn errs_json(errs: &[CompileError]) -> Value {
    Value::Array(
        errs.iter()
            .map(|e| json!({"msg": e.message, "start": e.span.start, "end": e.span.end, "kind": format!("{}", e.kind)}))
            .collect(),
    )
}
