//! C18: run the real `IncanLanguageServer` (tower-lsp service + JSON-RPC framing over in-memory pipes) on a
//! current-thread tokio runtime with paused (virtual) time, replay a burst of client messages, and return the
//! complete client-boundary history.  The history checker lives in lib/c18.py.

use serde_json::{json, Value};
use std::sync::{Arc, Mutex};
use std::time::Duration;
use tokio::io::{AsyncReadExt, AsyncWriteExt, DuplexStream};
use tokio::sync::Notify;
use tower_lsp::{LspService, Server};

use incan::lsp::IncanLanguageServer;

async fn send(w: &mut DuplexStream, msg: &Value) {
    let body = serde_json::to_vec(msg).expect("json");
    let head = format!("Content-Length: {}\r\n\r\n", body.len());
    w.write_all(head.as_bytes()).await.expect("write head");
    w.write_all(&body).await.expect("write body");
    w.flush().await.expect("flush");
}

/// Read one framed message; None on EOF.
async fn recv(r: &mut DuplexStream) -> Option<Value> {
    let mut header = Vec::new();
    let mut b = [0u8; 1];
    loop {
        match r.read(&mut b).await {
            Ok(0) | Err(_) => return None,
            Ok(_) => header.push(b[0]),
        }
        if header.ends_with(b"\r\n\r\n") {
            break;
        }
    }
    let text = String::from_utf8_lossy(&header);
    let mut len = 0usize;
    for line in text.split("\r\n") {
        if let Some(v) = line.strip_prefix("Content-Length:") {
            len = v.trim().parse().unwrap_or(0);
        }
    }
    let mut body = vec![0u8; len];
    if r.read_exact(&mut body).await.is_err() {
        return None;
    }
    serde_json::from_slice(&body).ok()
}

struct Shared {
    log: Mutex<Vec<Value>>, // {"seq", "dir", "t", "msg"}
    notify: Notify,
}

fn push(sh: &Shared, dir: &str, msg: Value) {
    let mut l = sh.log.lock().unwrap();
    let seq = l.len();
    let t = tokio::time::Instant::now();
    let _ = t;
    l.push(json!({"seq": seq, "dir": dir, "msg": msg}));
    drop(l);
    sh.notify.notify_waiters();
}

fn count_publishes(sh: &Shared) -> usize {
    sh.log
        .lock()
        .unwrap()
        .iter()
        .filter(|e| e["dir"] == "s2c" && e["msg"]["method"] == "textDocument/publishDiagnostics")
        .count()
}

fn has_response(sh: &Shared, id: i64) -> bool {
    sh.log
        .lock()
        .unwrap()
        .iter()
        .any(|e| e["dir"] == "s2c" && e["msg"]["id"] == json!(id) && e["msg"].get("method").is_none())
}

async fn wait_until<F: Fn() -> bool>(sh: &Shared, cond: F, virtual_ms: u64) -> bool {
    let deadline = tokio::time::Instant::now() + Duration::from_millis(virtual_ms);
    loop {
        if cond() {
            return true;
        }
        let n = sh.notify.notified();
        if cond() {
            return true;
        }
        tokio::select! {
            _ = n => {}
            _ = tokio::time::sleep_until(deadline) => { return cond(); }
        }
    }
}

async fn run_history(req: Value) -> Value {
    let delays: Vec<(String, i32, u64)> = req["delays"]
        .as_array()
        .map(|a| {
            a.iter()
                .map(|d| (d[0].as_str().unwrap_or("").to_string(), d[1].as_i64().unwrap_or(0) as i32, d[2].as_u64().unwrap_or(0)))
                .collect()
        })
        .unwrap_or_default();
    #[cfg(incan_verif)]
    incan::lsp::verif::set_delays(delays);
    #[cfg(not(incan_verif))]
    let _ = delays;

    let bp_ms = req["backpressure_ms"].as_u64().unwrap_or(0);
    let s2c_cap = if bp_ms > 0 { 64 } else { 1 << 22 };
    let (mut c_write, s_read) = tokio::io::duplex(1 << 22);
    let (s_write, mut c_read) = tokio::io::duplex(s2c_cap);
    let (service, socket) = LspService::new(IncanLanguageServer::new);
    let server = tokio::spawn(async move {
        Server::new(s_read, s_write, socket).serve(service).await;
    });
    let sh = Arc::new(Shared { log: Mutex::new(Vec::new()), notify: Notify::new() });
    let sh2 = sh.clone();
    let reader = tokio::spawn(async move {
        loop {
            if bp_ms > 0 {
                tokio::time::sleep(Duration::from_millis(bp_ms)).await;
            }
            match recv(&mut c_read).await {
                Some(m) => push(&sh2, "s2c", m),
                None => break,
            }
        }
    });

    let mut next_id: i64 = 1;
    let init = json!({"jsonrpc": "2.0", "id": next_id, "method": "initialize", "params": {"capabilities": {}, "processId": null, "rootUri": null}});
    push(&sh, "c2s", init.clone());
    send(&mut c_write, &init).await;
    let init_id = next_id;
    next_id += 1;
    let mut status = json!({"initialized": true, "quiescent": true, "probes_answered": true});
    {
        let shc = sh.clone();
        if !wait_until(&sh, move || has_response(&shc, init_id), 60_000).await {
            status["initialized"] = json!(false);
        }
    }
    let m = json!({"jsonrpc": "2.0", "method": "initialized", "params": {}});
    push(&sh, "c2s", m.clone());
    send(&mut c_write, &m).await;

    // phases: each phase is a burst of notifications sent back to back, then wait for quiescence, then probes
    let phases = req["phases"].as_array().cloned().unwrap_or_default();
    let mut expected_pub = 0usize;
    for ph in phases {
        let events = ph["events"].as_array().cloned().unwrap_or_default();
        for ev in &events {
            let uri = ev["uri"].as_str().unwrap_or("file:///d0.incn");
            let msg = match ev["type"].as_str().unwrap_or("") {
                "open" => {
                    expected_pub += 1;
                    json!({"jsonrpc": "2.0", "method": "textDocument/didOpen", "params": {"textDocument": {"uri": uri, "languageId": "incan", "version": ev["version"], "text": ev["text"]}}})
                }
                "change" => {
                    expected_pub += 1;
                    json!({"jsonrpc": "2.0", "method": "textDocument/didChange", "params": {"textDocument": {"uri": uri, "version": ev["version"]}, "contentChanges": [{"text": ev["text"]}]}})
                }
                "close" => {
                    expected_pub += 1;
                    json!({"jsonrpc": "2.0", "method": "textDocument/didClose", "params": {"textDocument": {"uri": uri}}})
                }
                "sleep" => {
                    tokio::time::sleep(Duration::from_millis(ev["ms"].as_u64().unwrap_or(1))).await;
                    continue;
                }
                _ => continue,
            };
            push(&sh, "c2s", msg.clone());
            send(&mut c_write, &msg).await;
        }
        // dependency publishes add to the count: the phase says how many extra publishes to expect at least
        let extra = ph["extra_publishes"].as_u64().unwrap_or(0) as usize;
        let want = expected_pub + extra;
        expected_pub = want;
        {
            let shc = sh.clone();
            if !wait_until(&sh, move || count_publishes(&shc) >= want, 60_000).await {
                status["quiescent"] = json!(false);
            }
        }
        // let any straggler settle (virtual time only)
        tokio::time::sleep(Duration::from_millis(200)).await;
        let marker = json!({"jsonrpc": "2.0", "method": "$/verif/quiescent", "params": {"publishes": count_publishes(&sh)}});
        push(&sh, "c2s", marker);
        for pr in ph["probes"].as_array().cloned().unwrap_or_default() {
            let uri = pr["uri"].as_str().unwrap_or("file:///d0.incn");
            let id = next_id;
            next_id += 1;
            let pos = json!({"line": pr["line"].as_u64().unwrap_or(0), "character": pr["character"].as_u64().unwrap_or(0)});
            let msg = match pr["type"].as_str().unwrap_or("hover") {
                "hover" => json!({"jsonrpc": "2.0", "id": id, "method": "textDocument/hover", "params": {"textDocument": {"uri": uri}, "position": pos}}),
                "definition" => json!({"jsonrpc": "2.0", "id": id, "method": "textDocument/definition", "params": {"textDocument": {"uri": uri}, "position": pos}}),
                _ => json!({"jsonrpc": "2.0", "id": id, "method": "textDocument/completion", "params": {"textDocument": {"uri": uri}, "position": pos}}),
            };
            push(&sh, "c2s", msg.clone());
            send(&mut c_write, &msg).await;
            let shc = sh.clone();
            if !wait_until(&sh, move || has_response(&shc, id), 60_000).await {
                status["probes_answered"] = json!(false);
            }
        }
        // R4: nothing further arrives after quiescence (5 virtual seconds)
        tokio::time::sleep(Duration::from_millis(5_000)).await;
        let marker = json!({"jsonrpc": "2.0", "method": "$/verif/phase_end", "params": {"publishes": count_publishes(&sh)}});
        push(&sh, "c2s", marker);
    }
    drop(c_write);
    let _ = tokio::time::timeout(Duration::from_millis(1000), server).await;
    reader.abort();
    #[cfg(incan_verif)]
    let trace: Vec<Value> = incan::lsp::verif::take_trace().into_iter().map(|(p, v)| json!([p, v])).collect();
    #[cfg(not(incan_verif))]
    let trace: Vec<Value> = Vec::new();
    let log = sh.log.lock().unwrap().clone();
    json!({"status": status, "log": log, "trace": trace, "hooks": cfg!(incan_verif)})
}

/// op "lsp"
pub fn lsp(req: &Value) -> Value {
    let rt = tokio::runtime::Builder::new_current_thread()
        .enable_all()
        .start_paused(true)
        .build()
        .expect("runtime");
    let req = req.clone();
    match std::panic::catch_unwind(std::panic::AssertUnwindSafe(|| rt.block_on(run_history(req)))) {
        Ok(v) => v,
        Err(p) => json!({"panic": crate::front::panic_msg(p)}),
    }
}
