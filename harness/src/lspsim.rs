//! C18: in-process language server histories (filled in below)
use serde_json::{json, Value};

pub fn lsp(_req: &Value) -> Value {
    json!({"error": "not implemented"})
}
