//! verif-harness: in-process driver for the real `incan` library (lexer, parser, typechecker, formatter, IR codegen,
//! LSP position helpers, LSP server). It only *executes the code under test and reports observations*;
//! verdict logic that needs an oracle lives in the Python drivers (lib/*.py) unless stated otherwise.
//!
//! Protocol: JSON Lines on stdin, one JSON reply per line on stdout.  `verif-harness serve`.

mod astdump;
mod front;
mod lspsim;
mod pos;
mod resolve;

use serde_json::{json, Value};
use std::io::{self, BufRead, BufWriter, Write};

fn handle(req: &Value) -> Value {
    let op = req.get("op").and_then(|v| v.as_str()).unwrap_or("");
    match op {
        "front" => front::front(req),
        "check" => front::check(req),
        "fmtcmp" => astdump::fmtcmp(req),
        "layout" => astdump::layout(req),
        "ast" => astdump::ast(req),
        "tokens" => astdump::tokens(req),
        "pos_exh" => pos::pos_exh(req),
        "pos_doc" => pos::pos_doc(req),
        "term_pos" => pos::term_pos(req),
        "resolve" => resolve::resolve(req),
        "lsp" => lspsim::lsp(req),
        _ => json!({"error": format!("unknown op {op}")}),
    }
}

fn serve() {
    let stdin = io::stdin();
    let stdout = io::stdout();
    let mut w = BufWriter::new(stdout.lock());
    for line in stdin.lock().lines() {
        let line = match line {
            Ok(l) => l,
            Err(_) => break,
        };
        if line.trim().is_empty() {
            continue;
        }
        let reply = match serde_json::from_str::<Value>(&line) {
            Ok(req) => handle(&req),
            Err(e) => json!({"error": format!("bad request: {e}")}),
        };
        writeln!(w, "{}", reply).expect("write");
        w.flush().expect("flush");
    }
}

fn main() {
    // Silence panic backtraces/messages on stderr: panics are observations reported in replies.
    std::panic::set_hook(Box::new(|_| {}));
    // Run on a thread with the same 8 MiB stack the CLI's main thread has.
    let t = std::thread::Builder::new()
        .stack_size(8 * 1024 * 1024)
        .spawn(serve)
        .expect("spawn");
    t.join().expect("join");
}
