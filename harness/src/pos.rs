//! C19: offset <-> position conversions of the LSP layer and the terminal renderer.

use crate::front::panic_msg;
use incan::frontend::ast::Span;
use incan::frontend::diagnostics::{self, CompileError};
use incan::lsp::diagnostics::{offset_to_position, position_to_offset, span_to_range};
use serde_json::{json, Value};
use std::panic::{catch_unwind, AssertUnwindSafe};

/// Independent reference: (line, column-in-chars) of a char-boundary offset, by counting in doc[..o].
fn ref_pos(doc: &str, o: usize) -> (u32, u32) {
    let prefix = &doc[..o];
    let line = prefix.matches('\n').count() as u32;
    let col = match prefix.rfind('\n') {
        Some(i) => prefix[i + 1..].chars().count(),
        None => prefix.chars().count(),
    } as u32;
    (line, col)
}

/// Line lengths in chars (lines split at '\n'; the '\n' itself is not counted).
fn line_lens(doc: &str) -> Vec<u32> {
    doc.split('\n').map(|l| l.chars().count() as u32).collect()
}

fn check_doc(doc: &str, span_all: bool, viol: &mut Vec<String>, evals: &mut u64) {
    let len = doc.len();
    let lens = line_lens(doc);
    let mut prev: Option<(u32, u32)> = None;
    for o in 0..=len {
        if !doc.is_char_boundary(o) {
            continue;
        }
        *evals += 1;
        let r = catch_unwind(AssertUnwindSafe(|| {
            let p = offset_to_position(doc, o);
            let back = position_to_offset(doc, p);
            (p.line, p.character, back)
        }));
        match r {
            Err(p) => viol.push(format!("doc {:?} offset {o}: panic {}", doc, panic_msg(p))),
            Ok((l, c, back)) => {
                let exp = ref_pos(doc, o);
                if (l, c) != exp {
                    viol.push(format!("doc {:?} offset {o}: offset_to_position=({l},{c}) expected {:?}", doc, exp));
                }
                if back != Some(o) {
                    viol.push(format!("doc {:?} offset {o}: round trip gives {:?}", doc, back));
                }
                if let Some(pp) = prev {
                    if !(pp < (l, c)) {
                        viol.push(format!("doc {:?} offset {o}: position ({l},{c}) not after previous {:?}", doc, pp));
                    }
                }
                prev = Some((l, c));
            }
        }
    }
    if span_all {
        let hi = len + 2;
        for s in 0..=hi {
            for e in 0..=hi {
                *evals += 1;
                match catch_unwind(AssertUnwindSafe(|| span_to_range(doc, s, e))) {
                    Err(p) => viol.push(format!("doc {:?} span ({s},{e}): panic {}", doc, panic_msg(p))),
                    Ok(r) => {
                        let a = (r.start.line, r.start.character);
                        let b = (r.end.line, r.end.character);
                        if a > b {
                            viol.push(format!("doc {:?} span ({s},{e}): range start {:?} > end {:?}", doc, a, b));
                        }
                        for (l, c) in [a, b] {
                            let ok = (l as usize) < lens.len() && c <= lens[l as usize];
                            if !ok {
                                viol.push(format!("doc {:?} span ({s},{e}): position ({l},{c}) outside the document", doc));
                            }
                        }
                    }
                }
            }
        }
    }
}

/// op "pos_exh": enumerate all documents over `alphabet` with length <= maxlen (shard k of n) and check them.
pub fn pos_exh(req: &Value) -> Value {
    let alpha: Vec<String> = req["alphabet"].as_array().map(|a| a.iter().map(|x| x.as_str().unwrap_or("").to_string()).collect()).unwrap_or_default();
    let maxlen = req["maxlen"].as_u64().unwrap_or(3) as usize;
    let span_maxlen = req["span_maxlen"].as_u64().unwrap_or(4) as usize;
    let shard = req["shard"].as_u64().unwrap_or(0);
    let nshards = req["nshards"].as_u64().unwrap_or(1).max(1);
    let k = alpha.len();
    let mut viol: Vec<String> = Vec::new();
    let mut docs: u64 = 0;
    let mut evals: u64 = 0;
    let mut nontrivial: u64 = 0;
    let mut idx: u64 = 0;
    for n in 0..=maxlen {
        let total = (k as u64).pow(n as u32);
        for code in 0..total {
            idx += 1;
            if idx % nshards != shard {
                continue;
            }
            let mut c = code;
            let mut doc = String::new();
            for _ in 0..n {
                doc.push_str(&alpha[(c % k as u64) as usize]);
                c /= k as u64;
            }
            docs += 1;
            if doc.contains('\n') || doc.len() != doc.chars().count() {
                nontrivial += 1;
            }
            check_doc(&doc, n <= span_maxlen, &mut viol, &mut evals);
            if viol.len() > 50 {
                break;
            }
        }
    }
    viol.truncate(50);
    json!({"docs": docs, "evaluations": evals, "nontrivial_docs": nontrivial, "violations": viol})
}

/// op "pos_doc": raw conversion tables for one document; the Python driver applies its own oracle.
pub fn pos_doc(req: &Value) -> Value {
    let doc = req["doc"].as_str().unwrap_or("");
    let r = catch_unwind(AssertUnwindSafe(|| {
        let mut table: Vec<Value> = Vec::new();
        for o in 0..=doc.len() {
            if !doc.is_char_boundary(o) {
                continue;
            }
            let p = offset_to_position(doc, o);
            let back = position_to_offset(doc, p);
            table.push(json!([o, p.line, p.character, back]));
        }
        let mut spans: Vec<Value> = Vec::new();
        if let Some(ps) = req["spans"].as_array() {
            for s in ps {
                let (a, b) = (s[0].as_u64().unwrap_or(0) as usize, s[1].as_u64().unwrap_or(0) as usize);
                let r = span_to_range(doc, a, b);
                spans.push(json!([a, b, r.start.line, r.start.character, r.end.line, r.end.character]));
            }
        }
        json!({"table": table, "spans": spans})
    }));
    match r {
        Ok(v) => v,
        Err(p) => json!({"panic": panic_msg(p)}),
    }
}

/// op "term_pos": the `--> file:L:C` location the terminal renderer prints for a span starting at `offset`.
pub fn term_pos(req: &Value) -> Value {
    let doc = req["doc"].as_str().unwrap_or("");
    let mut out: Vec<Value> = Vec::new();
    if let Some(offs) = req["offsets"].as_array() {
        for o in offs {
            let o = o.as_u64().unwrap_or(0) as usize;
            let e = CompileError::new("m".to_string(), Span::new(o, (o + 1).min(doc.len()).max(o)));
            match catch_unwind(AssertUnwindSafe(|| diagnostics::format_error("f.incn", doc, &e))) {
                Err(p) => out.push(json!({"offset": o, "panic": panic_msg(p)})),
                Ok(text) => {
                    let mut found = json!({"offset": o, "missing": true});
                    for line in text.lines() {
                        if let Some(i) = line.find("f.incn:") {
                            let rest = &line[i + 7..];
                            let parts: Vec<&str> = rest.trim().split(':').collect();
                            if parts.len() >= 2 {
                                found = json!({"offset": o, "line": parts[0].parse::<u64>().ok(), "col": parts[1].trim().parse::<u64>().ok()});
                            }
                            break;
                        }
                    }
                    out.push(found);
                }
            }
        }
    }
    json!({"results": out})
}
