//! C14: which file does each resolver pick? (filled in below)
use serde_json::{json, Value};

pub fn resolve(_req: &Value) -> Value {
    json!({"error": "not implemented"})
}
