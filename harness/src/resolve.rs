//! C14: which files does each resolver pick for a project?  Observations only; the comparison is in lib/c14.py.
//!
//! - "cli": `incan::cli::commands::collect_modules(entry)` (what `incan --check/build/run` use)
//! - "lsp": the language server's rule: `frontend::module::resolve_import_path` applied transitively, every
//!   import resolved relative to the directory of the *importing* file (as `collect_dependency_modules` does)
//! - "collector" / "resolver": the two library collectors in `frontend::module` / `frontend::resolver`

use incan::frontend::ast::Declaration;
use incan::frontend::module::resolve_import_path;
use incan::frontend::{lexer, parser};
use serde_json::{json, Value};
use std::collections::BTreeSet;
use std::path::{Path, PathBuf};

fn marker_of(source: &str) -> Option<String> {
    let key = "const MARK = \"";
    let i = source.find(key)?;
    let rest = &source[i + key.len()..];
    let j = rest.find('"')?;
    Some(rest[..j].to_string())
}

fn lsp_closure(entry: &Path) -> (Vec<Value>, BTreeSet<String>) {
    let mut direct: Vec<Value> = Vec::new();
    let mut seen: BTreeSet<PathBuf> = BTreeSet::new();
    let mut markers: BTreeSet<String> = BTreeSet::new();
    let mut stack: Vec<(PathBuf, bool)> = vec![(entry.to_path_buf(), true)];
    while let Some((path, is_entry)) = stack.pop() {
        let canonical = path.canonicalize().unwrap_or(path.clone());
        if !seen.insert(canonical.clone()) {
            continue;
        }
        let Ok(src) = std::fs::read_to_string(&canonical) else { continue };
        if !is_entry {
            if let Some(m) = marker_of(&src) {
                markers.insert(m);
            }
        }
        let Ok(toks) = lexer::lex(&src) else { continue };
        let Ok(ast) = parser::parse(&toks) else { continue };
        let base = canonical.parent().unwrap_or(Path::new(".")).to_path_buf();
        for (k, decl) in ast.declarations.iter().enumerate() {
            if let Declaration::Import(import) = &decl.node {
                let r = resolve_import_path(&base, import);
                if is_entry {
                    let m = r.as_ref().and_then(|p| std::fs::read_to_string(p).ok()).and_then(|s| marker_of(&s));
                    direct.push(json!({"decl": k, "marker": m}));
                }
                if let Some(p) = r {
                    stack.push((p, false));
                }
            }
        }
    }
    (direct, markers)
}

pub fn resolve(req: &Value) -> Value {
    let entry = req["entry"].as_str().unwrap_or("");
    let entry_path = Path::new(entry);
    let r = std::panic::catch_unwind(std::panic::AssertUnwindSafe(|| {
        // CLI collector
        let cli = match incan::cli::commands::collect_modules(entry) {
            Ok(mods) => {
                let n = mods.len();
                let deps: Vec<Value> = mods
                    .iter()
                    .take(n.saturating_sub(1))
                    .map(|m| json!({"name": m.name, "segments": m.path_segments, "marker": marker_of(&m.source)}))
                    .collect();
                json!({"ok": true, "deps": deps})
            }
            Err(e) => json!({"ok": false, "error": format!("{:?}", e).chars().take(300).collect::<String>()}),
        };
        let (direct, lsp_markers) = lsp_closure(entry_path);
        // frontend::module::ModuleCollector
        let collector = {
            let mut c = incan::frontend::module::ModuleCollector::new(entry_path);
            match c.collect(entry_path) {
                Ok(mods) => {
                    let ms: BTreeSet<String> = mods.iter().filter_map(|m| marker_of(&m.source)).collect();
                    json!({"ok": true, "markers": ms})
                }
                Err(e) => json!({"ok": false, "error": e.first().map(|x| x.message.clone())}),
            }
        };
        let resolver = {
            let mut rs = incan::frontend::resolver::ModuleResolver::new();
            match rs.resolve(entry) {
                Ok(mods) => {
                    let ms: BTreeSet<String> = mods.iter().filter(|m| m.name != "main").filter_map(|m| marker_of(&m.source)).collect();
                    json!({"ok": true, "markers": ms})
                }
                Err(e) => json!({"ok": false, "error": format!("{}", e).chars().take(200).collect::<String>()}),
            }
        };
        json!({"cli": cli, "lsp": {"direct": direct, "markers": lsp_markers}, "collector": collector, "resolver": resolver})
    }));
    match r {
        Ok(v) => v,
        Err(p) => json!({"panic": crate::front::panic_msg(p)}),
    }
}
