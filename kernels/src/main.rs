//! verif-kernels: drives the runtime kernels of incan_core / incan_stdlib over a line protocol.
//!
//! The oracle lives in the Python driver (lib/kern.py); this binary only *executes the real code*
//! and reports what it observed (value or panic text) per entry point.
//!
//! Request lines (fields separated by one space; floats are u64 bit patterns in hex; strings are hex of UTF-8;
//! `N` is an absent optional):
//!   I a b            int/int      -> core_mod core_fdiv std_mod_i64 std_fdiv_i64 gen_mod gen_fdiv gen_div
//!   F abits bbits    float/float  -> core_mod_f64 std_mod_f64 std_fdiv_f64 gen_mod gen_fdiv gen_div
//!   M a bbits        int/float    -> gen_mod gen_fdiv gen_div
//!   N abits b        float/int    -> gen_mod gen_fdiv gen_div
//!   X hex i          index        -> core_char_at std_str_index list_get list_get_mut
//!   S hex s e st     slice        -> core_str_slice std_str_slice list_slice
//!   R a b c cap      range        -> elems(,) more?
//!   D n key          dict<int>    -> dict_get
//!   E hexkey hexk,.. dict<str>    -> dict_get
//! Reply: one line per request, fields separated by TAB. A field is `-` (not applicable), `!<panic text>`,
//! or a value: decimal int, `f<hex bits>`, `s<hex utf8>`, `l<cp,cp,...>`.

use std::collections::HashMap;
use std::io::{self, BufRead, BufWriter, Write};
use std::panic::{self, AssertUnwindSafe};

use incan_core::strings as cs;
use incan_stdlib::{collections as sc, iter as si, num, strings as ss};

fn guard<T, F: FnOnce() -> T>(f: F, show: impl FnOnce(T) -> String) -> String {
    match panic::catch_unwind(AssertUnwindSafe(f)) {
        Ok(v) => show(v),
        Err(p) => {
            let msg = if let Some(s) = p.downcast_ref::<String>() {
                s.clone()
            } else if let Some(s) = p.downcast_ref::<&str>() {
                (*s).to_string()
            } else {
                "<non-string panic>".to_string()
            };
            format!("!{}", msg.replace('\t', " ").replace('\n', " "))
        }
    }
}

fn fi(v: i64) -> String {
    v.to_string()
}
fn ff(v: f64) -> String {
    format!("f{:016x}", v.to_bits())
}
fn fs(v: String) -> String {
    let mut o = String::from("s");
    for b in v.as_bytes() {
        o.push_str(&format!("{:02x}", b));
    }
    o
}
fn fl(v: Vec<char>) -> String {
    let mut o = String::from("l");
    for (k, c) in v.iter().enumerate() {
        if k > 0 {
            o.push(',');
        }
        o.push_str(&(*c as u32).to_string());
    }
    o
}

fn pf(s: &str) -> f64 {
    f64::from_bits(u64::from_str_radix(s, 16).expect("float bits"))
}
fn pi(s: &str) -> i64 {
    s.parse::<i64>().expect("int")
}
fn po(s: &str) -> Option<i64> {
    if s == "N" { None } else { Some(pi(s)) }
}
fn ph(s: &str) -> String {
    if s == "-" {
        return String::new();
    }
    let bytes: Vec<u8> = (0..s.len() / 2)
        .map(|k| u8::from_str_radix(&s[2 * k..2 * k + 2], 16).expect("hex"))
        .collect();
    String::from_utf8(bytes).expect("utf8")
}

fn handle(line: &str) -> String {
    let p: Vec<&str> = line.split(' ').collect();
    let mut out: Vec<String> = Vec::new();
    match p[0] {
        "I" => {
            let (a, b) = (pi(p[1]), pi(p[2]));
            if b != 0 {
                out.push(guard(|| incan_core::py_mod_i64_impl(a, b), fi));
                out.push(guard(|| incan_core::py_floor_div_i64_impl(a, b), fi));
            } else {
                out.push("-".into());
                out.push("-".into());
            }
            out.push(guard(|| num::py_mod_i64(a, b), fi));
            out.push(guard(|| num::py_floor_div_i64(a, b), fi));
            out.push(guard(|| num::py_mod(a, b), fi));
            out.push(guard(|| num::py_floor_div(a, b), fi));
            out.push(guard(|| num::py_div(a, b), ff));
        }
        "F" => {
            let (a, b) = (pf(p[1]), pf(p[2]));
            if b != 0.0 {
                out.push(guard(|| incan_core::py_mod_f64_impl(a, b), ff));
            } else {
                out.push("-".into());
            }
            out.push(guard(|| num::py_mod_f64(a, b), ff));
            out.push(guard(|| num::py_floor_div_f64(a, b), ff));
            out.push(guard(|| num::py_mod(a, b), ff));
            out.push(guard(|| num::py_floor_div(a, b), ff));
            out.push(guard(|| num::py_div(a, b), ff));
        }
        "M" => {
            let (a, b) = (pi(p[1]), pf(p[2]));
            out.push(guard(|| num::py_mod(a, b), ff));
            out.push(guard(|| num::py_floor_div(a, b), ff));
            out.push(guard(|| num::py_div(a, b), ff));
        }
        "N" => {
            let (a, b) = (pf(p[1]), pi(p[2]));
            out.push(guard(|| num::py_mod(a, b), ff));
            out.push(guard(|| num::py_floor_div(a, b), ff));
            out.push(guard(|| num::py_div(a, b), ff));
        }
        "X" => {
            let s = ph(p[1]);
            let i = pi(p[2]);
            out.push(guard(
                || cs::str_char_at(&s, i),
                |r| match r {
                    Ok(v) => fs(v),
                    Err(e) => format!("!{}", incan_core::errors::IncanError::from(e)),
                },
            ));
            out.push(guard(|| ss::str_index(&s, i), fs));
            let chars: Vec<char> = s.chars().collect();
            out.push(guard(|| *sc::list_get(&chars, i), |c| fl(vec![c])));
            let mut chars2 = chars.clone();
            out.push(guard(|| *sc::list_get_mut(&mut chars2, i), |c| fl(vec![c])));
        }
        "S" => {
            let s = ph(p[1]);
            let (a, b, c) = (po(p[2]), po(p[3]), po(p[4]));
            out.push(guard(
                || cs::str_slice(&s, a, b, c),
                |r| match r {
                    Ok(v) => fs(v),
                    Err(e) => format!("!{}", incan_core::errors::IncanError::from(e)),
                },
            ));
            out.push(guard(|| ss::str_slice(&s, a, b, c), fs));
            let chars: Vec<char> = s.chars().collect();
            out.push(guard(|| sc::list_slice(&chars, a, b, c), fl));
        }
        "R" => {
            let (a, b, c) = (pi(p[1]), pi(p[2]), pi(p[3]));
            let cap: usize = p[4].parse().expect("cap");
            out.push(guard(
                || {
                    let mut it = si::range(a, b, c);
                    let mut v: Vec<i64> = Vec::new();
                    let mut more = false;
                    loop {
                        match it.next() {
                            None => break,
                            Some(x) => {
                                if v.len() == cap {
                                    more = true;
                                    break;
                                }
                                v.push(x);
                            }
                        }
                    }
                    (v, more)
                },
                |(v, more)| {
                    let items: Vec<String> = v.iter().map(|x| x.to_string()).collect();
                    format!("r{}{}", items.join(","), if more { "+" } else { "" })
                },
            ));
        }
        "D" => {
            let n = pi(p[1]);
            let key = pi(p[2]);
            let mut m: HashMap<i64, i64> = HashMap::new();
            for k in 0..n {
                m.insert(k * 3 - 4, k * 7 + 1);
            }
            out.push(guard(|| *sc::dict_get(&m, &key), fi));
        }
        "E" => {
            let key = ph(p[1]);
            let mut m: HashMap<String, i64> = HashMap::new();
            if p[2] != "_" {
                for (k, h) in p[2].split(',').enumerate() {
                    m.insert(ph(h), k as i64);
                }
            }
            out.push(guard(|| *sc::dict_get(&m, &key), fi));
        }
        other => out.push(format!("?unknown request {other}")),
    }
    out.join("\t")
}

fn main() {
    panic::set_hook(Box::new(|_| {}));
    let stdin = io::stdin();
    let stdout = io::stdout();
    let mut w = BufWriter::new(stdout.lock());
    for line in stdin.lock().lines() {
        let line = line.expect("read");
        if line.is_empty() {
            continue;
        }
        let r = handle(&line);
        writeln!(w, "{}", r).expect("write");
    }
    w.flush().expect("flush");
}
