"""C01 (compiled behaviour == documented semantics) and C02 (accepted => builds): generated cases + corpus + witnesses."""
import os
import random
import re

import casecheck
import corpus
import gprog
import incanref
import progs
from common import CORPUS, NCPU, Run, Verdict, build_repo, quarantined, sha

# Generator restrictions that are *not* findings (the documented semantics do not fix the outcome, or the construct is a
# false reject that no listed property covers). They are always avoided.
RESTRICTIONS = {"list.var", "liststr.var", "opt.dict_get"}


def enc_exp(lines, panic):
    return {"lines": [list(x) if isinstance(x, tuple) else x for x in lines], "panic": [panic.kind, panic.msg] if panic else None}


def dec_exp(d):
    lines = [tuple(x) if isinstance(x, list) else x for x in d["lines"]]
    panic = incanref.IncanPanic(d["panic"][0], d["panic"][1]) if d.get("panic") else None
    return lines, panic


def run_text(src, name="prog"):
    job = {"name": name, "files": {name + ".incn": src}, "entry": name + ".incn", "check": True, "run": True}
    return progs.run_jobs([job], 1)[0]


def eval_case_for(prop):
    def eval_case(case):
        src = case.get("src")
        if src is None and "corpus_id" in case:
            src = dict(corpus.corpus_texts()).get(case["corpus_id"])
            if src is None:
                return Verdict("inconclusive", "corpus item %s no longer exists" % case["corpus_id"])
        if src is None:
            src = open(os.path.join(CORPUS, case["file"]), encoding="utf-8").read()
        r = run_text(src)
        ck, b, rn = r["check"], r["build"], r["run"]
        if ck is None or ck.get("rc") != 0:
            return Verdict("inconclusive", "precondition: `incan --check` rejects the program: %s" % casecheck._check_sig(ck))
        if b is None or b.get("timeout"):
            return Verdict("inconclusive", "build watchdog")
        if b.get("rc") != 0:
            if prop == "C02":
                return Verdict("violated", "accepted by --check but does not build: %s" % casecheck.first_rustc_error(b.get("stderr", "") + b.get("stdout", "")),
                               {"stderr": b.get("stderr", "")[-800:]})
            return Verdict("inconclusive", "program does not build (C02 territory)")
        if prop == "C02":
            return Verdict("held")
        if rn is None or rn.get("timeout") or rn.get("missing_binary"):
            return Verdict("inconclusive", "run watchdog")
        if "exp" in case:
            lines, panic = dec_exp(case["exp"])
        elif "expect_stdout" in case:
            lines = case["expect_stdout"].split("\n")[:-1] if case["expect_stdout"].endswith("\n") else case["expect_stdout"].split("\n")
            panic = None
        else:
            return Verdict("inconclusive", "no expectation recorded")
        # strip batch markers if the replayed program is a batch program
        out = "\n".join(l for l in rn["stdout"].split("\n") if not re.fullmatch(r"@@ \S+", l))
        sig = incanref.compare_output(lines, panic, out, rn["stderr"], rn["rc"])
        if sig is None:
            return Verdict("held")
        return Verdict("violated", sig)
    return eval_case


def featkey(c):
    return sha(",".join(sorted(c["features"])))[:14]


def main_for(prop, tier, seed, replay=None):
    run = Run(prop, tier, seed)
    quick = tier == "quick"
    if prop == "C01":
        run.rule = ("one evaluation = one generated well-typed case (models/enums/helper functions + 4-12 statements, value trace printed "
                    "after the statements of interest) compiled by the real `incan build`, executed, and compared line by line and on exit "
                    "status / `Kind: message` with the independent reference interpreter incanref; cases are batched 8 per program and "
                    "re-run alone when a batch disagrees; distinct = feature-set hash; non-trivial = >= 3 generator features and >= 3 "
                    "compared lines")
    else:
        run.rule = ("one evaluation = one program accepted by `incan --check` submitted to `incan build` (generated cases from the wide "
                    "catalogue + every repository/docs corpus program that passes --check and has a main); violated iff the build fails; "
                    "distinct = feature-set hash or file hash; non-trivial = >= 2 declarations or >= 5 statements")
    run.assumptions = ["reference semantics rest only on the documented rules listed in DESIGN.md Appendix A",
                       "floats are compared numerically, bools through if/else, collections element-wise",
                       "a reference run that overflows i64, reaches NaN/Inf or exceeds its step budget makes the case inconclusive"]
    build_repo()
    eval_case = eval_case_for(prop)
    if replay:
        run.record(eval_case(replay["case"]), replay["case"], key="replay")
        return run.finish()
    run.run_known(eval_case)
    avoid = quarantined("C01") | quarantined("C02") | RESTRICTIONS
    run.extra["quarantined_features"] = sorted(avoid - RESTRICTIONS)
    run.extra["generator_restrictions"] = sorted(RESTRICTIONS)
    n = (400 if quick else 6000)
    rng = random.Random(seed * 101 + (1 if prop == "C01" else 2))
    cases = [gprog.gen_case(rng, str(i), avoid) for i in range(n)]
    res = casecheck.evaluate(cases, batch=8, nproc=8)
    lines_total = 0
    to_reduce = []
    for c in cases:
        r = res[c["id"]]
        for f in c["features"]:
            run.features[f] = run.features.get(f, 0) + 1
        st = r["status"]
        key = featkey(c)
        nontriv = len(c["features"]) >= 3
        if st == "ok":
            lines_total += r.get("lines", 0)
            run.record(Verdict("held"), key=key, nontrivial=nontriv and (prop == "C02" or r.get("lines", 0) >= 3))
            if r.get("panic"):
                run.feature("outcome.panic." + r["panic"].split(":")[0])
        elif st == "inconclusive":
            run.record(Verdict("inconclusive", r["sig"].split(":")[0]))
        elif st == "check_rejected":
            run.record(Verdict("inconclusive", "generator precondition: --check rejected a generated case"))
            run.extra.setdefault("check_rejected_examples", [])
            if len(run.extra["check_rejected_examples"]) < 5:
                run.extra["check_rejected_examples"].append(r.get("sig"))
        elif st == "build_failed":
            if prop == "C02":
                to_reduce.append((c, r))
            else:
                run.record(Verdict("inconclusive", "generated case does not build (reported by C02)"))
        elif st == "diff":
            if prop == "C01":
                to_reduce.append((c, r))
            else:
                run.record(Verdict("held"), key=key, nontrivial=nontriv)
    for c, r in to_reduce[:2]:
        red = casecheck.reduce_case(c, r["status"], (r.get("sig") or "")[:30], rounds=4)
        text = casecheck.program_text([red])
        case = {"src": text, "features": sorted(c["features"]), "original_program": r.get("program")}
        if prop == "C01":
            try:
                lines, panic = casecheck.expected_of(red)
                case["exp"] = enc_exp(lines, panic)
            except Exception:
                case["src"] = r.get("program")
        sig = ("accepted by --check but does not build: " if prop == "C02" else "") + (r.get("sig") or "")
        run.record(Verdict("violated", sig), case, key=featkey(c))
    for c, r in to_reduce[2:]:
        sig = ("accepted by --check but does not build: " if prop == "C02" else "") + (r.get("sig") or "")
        run.record(Verdict("violated", sig), {"src": r.get("program"), "features": sorted(c["features"])}, key=featkey(c))
    run.extra["compared_output_lines"] = lines_total
    run.extra["generated_cases"] = n
    for c in cases[:2]:
        run.sample(casecheck.program_text([c])[:600], cap=3)
    if prop == "C02":
        corpus_c02(run, quick, rng)
    run.min_held = 100 if quick else 1000
    progs.prune_pools()
    return run.finish()


def corpus_c02(run, quick, rng):
    """Corpus programs that pass --check and define main must build."""
    items = [(i, t) for i, t in corpus.corpus_texts() if re.search(r"^(async )?def main\(", t, re.M) and "import " not in t.split("def main")[0].replace("import this", "")]
    items = [(i, t) for i, t in items if not re.search(r"^\s*(from|import) ", t, re.M)]
    from common import load_known
    pinned = set(w["case"].get("corpus_id") for f in load_known("C02") if f.get("status", "open") == "open" for w in f["witnesses"])
    items = [(i, t) for i, t in items if i not in pinned]  # pinned witnesses were re-run by run_known
    if quick:
        items = rng.sample(items, min(40, len(items)))
    jobs = [{"name": "cp", "files": {"cp.incn": t}, "entry": "cp.incn", "check": True, "run": False} for _, t in items]
    res = progs.run_jobs(jobs, 8)
    n = 0
    for (cid, t), r in zip(items, res):
        ck, b = r["check"], r["build"]
        if ck is None or ck.get("rc") != 0:
            run.record(Verdict("inconclusive", "corpus item rejected by --check (precondition)"))
            continue
        n += 1
        if b is None or b.get("timeout"):
            run.record(Verdict("inconclusive", "build watchdog"))
        elif b.get("rc") != 0:
            err = b.get("stderr", "") + b.get("stdout", "")
            if re.search(r"no matching package named|failed to (select a version|get) ", err):
                run.record(Verdict("inconclusive", "crate not in the offline registry (environment)"))
                continue
            sig = "corpus %s accepted by --check but does not build: %s" % (cid, casecheck.first_rustc_error(err))
            run.record(Verdict("violated", sig), {"src": t, "corpus_id": cid}, key=("corpus", cid))
        else:
            run.record(Verdict("held"), key=("corpus", cid), nontrivial=t.count("\n") >= 5)
    run.extra["corpus_programs_accepted"] = n


def main(tier, seed, replay=None):
    return main_for("C01", tier, seed, replay)
