import c01


def main(tier, seed, replay=None):
    return c01.main_for("C02", tier, seed, replay)
