"""C03 - ill-typed programs are rejected with a located diagnostic: rule x context matrix of single-edit mutants."""
import random

import hc
from common import NCPU, Run, Verdict, build_harness, quarantined, sha

HOST_DECLS = '''enum Color:
    Red
    Green(int)
    Blue


enum Shade:
    Dark
    Light


model P:
    x: int
    name: str

    def calc(self, p: int) -> int:
        return self.x + p

    def bump(mut self, p: int) -> None:
        self.x = self.x + p


trait Shape:
    def area(self) -> int: ...


trait Scaled:
    def scale(self, k: int) -> int:
        return k * 2


class KAdopt with Scaled:
    w: int

    def own(self, p: int) -> int:
        return self.w + p


model MAdopt with Scaled:
    w: int


class KBase:
    b: int

    def base_m(self, p: int) -> int:
        return self.b + p


class KChild extends KBase:
    c: int


type Meters = newtype int:
    def plus(self, p: int) -> int:
        return p


def ok_int(a: int) -> int:
    return a + 1


def ok_str(s: str) -> str:
    return s


def res_str_err() -> Result[int, str]:
    return Ok(1)


def res_int_err() -> Result[int, int]:
    return Ok(1)


def opt_int() -> Option[int]:
    return Some(1)

'''

# ---- rules: (name, bad lines, offending line index, good twin lines, needs) ----
# `needs`: "stmt" (statement snippet usable in any block) | "expr" (BAD/GOOD are expressions of type int) |
#          "fn_res" (statement snippet that must sit in a function returning Result[int, str]) | "decl" (whole-program edits)
STMT_RULES = [
    ("unknown_name.stmt", ["println(zq_unknown)"], 0, ["println(1)"]),
    ("unknown_name.call", ["zq_missing_fn(1)"], 0, ["ok_int(1)"]),
    ("wrong_type.annotated_assign", ['zq_a: int = "s"'], 0, ["zq_a: int = 1"]),
    ("wrong_type.annotated_assign_float_to_int", ["zq_a: int = 1 / 2"], 0, ["zq_a: float = 1 / 2"]),
    ("wrong_type.call_arg", ['zq_r = ok_int("s")'], 0, ["zq_r = ok_int(1)"]),
    ("wrong_type.method_arg", ["zq_p = P(x=1, name=\"n\")", 'zq_r = zq_p.calc("s")'], 1, ["zq_p = P(x=1, name=\"n\")", "zq_r = zq_p.calc(2)"]),
    ("wrong_type.method_arg_class_own", ["zq_k = KAdopt(w=1)", 'zq_r = zq_k.own("s")'], 1, ["zq_k = KAdopt(w=1)", "zq_r = zq_k.own(2)"]),
    ("wrong_type.method_arg_trait_default_via_class", ["zq_k = KAdopt(w=1)", 'zq_r = zq_k.scale("s")'], 1, ["zq_k = KAdopt(w=1)", "zq_r = zq_k.scale(2)"]),
    ("wrong_type.method_arg_trait_default_via_model", ["zq_k = MAdopt(w=1)", 'zq_r = zq_k.scale("s")'], 1, ["zq_k = MAdopt(w=1)", "zq_r = zq_k.scale(2)"]),
    ("wrong_type.method_arg_inherited", ["zq_k = KChild(b=1, c=2)", 'zq_r = zq_k.base_m("s")'], 1, ["zq_k = KChild(b=1, c=2)", "zq_r = zq_k.base_m(2)"]),
    ("wrong_type.method_arg_newtype", ["zq_k = Meters(3)", 'zq_r = zq_k.plus("s")'], 1, ["zq_k = Meters(3)", "zq_r = zq_k.plus(2)"]),
    ("reassign_immutable.plain_same_scope", ["let zq = 1", "zq = 2"], 1, ["mut zq = 1", "zq = 2"]),
    ("reassign_immutable.inferred_same_scope", ["zq = 1", "zq = 2"], 1, ["mut zq = 1", "zq = 2"]),
    ("reassign_immutable.compound_same_scope", ["zq = 1", "zq += 2"], 1, ["mut zq = 1", "zq += 2"]),
    ("reassign_immutable.plain_nested_scope", ["let zq = 1", "if true:", "    zq = 2"], 2, ["mut zq = 1", "if true:", "    zq = 2"]),
    ("wrong_type.reassign_nested_scope", ["mut zq = 1", "if true:", '    zq = "s"'], 2, ["mut zq = 1", "if true:", "    zq = 2"]),
    ("reassign_immutable.compound_nested_scope", ["zq = 1", "for zq_i in range(2):", "    zq += 2"], 2, ["mut zq = 1", "for zq_i in range(2):", "    zq += 2"]),
    ("reassign_immutable.loop_var_plain", ["for zq_x in range(2):", "    zq_x = 5"], 1, ["for zq_x in range(2):", "    mut zq_y = zq_x", "    zq_y = 5"]),
    ("reassign_immutable.loop_var_compound", ["for zq_x in range(2):", "    zq_x += 1"], 1, ["for zq_x in range(2):", "    mut zq_y = zq_x", "    zq_y += 1"]),
    ("reassign_immutable.loop_var_compound_nested", ["for zq_x in range(2):", "    if zq_x > 0:", "        zq_x += 1"], 2, ["for zq_x in range(2):", "    mut zq_y = zq_x", "    if zq_x > 0:", "        zq_y += 1"]),
    ("mutate_immutable.field", ["zq_p = P(x=1, name=\"n\")", "zq_p.x = 5"], 1, ["mut zq_p = P(x=1, name=\"n\")", "zq_p.x = 5"]),
    ("mutate_immutable.index", ["zq_xs = [1, 2]", "zq_xs[0] = 3"], 1, ["mut zq_xs = [1, 2]", "zq_xs[0] = 3"]),
    ("mutate_immutable.append", ["zq_xs = [1, 2]", "zq_xs.append(4)"], 1, ["mut zq_xs = [1, 2]", "zq_xs.append(4)"]),
    ("mutate_immutable.mut_method", ["zq_p = P(x=1, name=\"n\")", "zq_p.bump(2)"], 1, ["mut zq_p = P(x=1, name=\"n\")", "zq_p.bump(2)"]),
    ("try.non_result", ["zq_v = ok_int(1)?"], 0, ["zq_v = res_str_err()?"]),
    ("try.incompatible_error", ["zq_v = res_int_err()?"], 0, ["zq_v = res_str_err()?"]),
    ("match.enum_missing_variant", ["zq_c = Color.Red", "match zq_c:", "    Color.Red => println(1)", "    Color.Green(zq_g) => println(zq_g)"], 1,
     ["zq_c = Color.Red", "match zq_c:", "    Color.Red => println(1)", "    Color.Green(zq_g) => println(zq_g)", "    Color.Blue => println(3)"]),
    ("match.enum_missing_variant_foreign_arm", ["zq_c = Color.Red", "match zq_c:", "    Color.Red => println(1)", "    Color.Green(zq_g) => println(zq_g)", "    Shade.Dark => println(3)"], 1,
     ["zq_c = Color.Red", "match zq_c:", "    Color.Red => println(1)", "    Color.Green(zq_g) => println(zq_g)", "    Color.Blue => println(3)"]),
    ("match.enum_missing_variant_misspelt_arm", ["zq_c = Color.Red", "match zq_c:", "    Color.Red => println(1)", "    Color.Green(zq_g) => println(zq_g)", "    Color.Bleu => println(3)"], 1,
     ["zq_c = Color.Red", "match zq_c:", "    Color.Red => println(1)", "    Color.Green(zq_g) => println(zq_g)", "    Color.Blue => println(3)"]),
    ("match.option_missing_none_foreign_arm", ["zq_o = opt_int()", "match zq_o:", "    Some(zq_v) => println(zq_v)", "    Ok(zq_w) => println(zq_w)"], 1,
     ["zq_o = opt_int()", "match zq_o:", "    Some(zq_v) => println(zq_v)", "    None => println(0)"]),
    ("match.result_missing_err_foreign_arm", ["zq_o = res_str_err()", "match zq_o:", "    Ok(zq_v) => println(zq_v)", "    Some(zq_w) => println(zq_w)"], 1,
     ["zq_o = res_str_err()", "match zq_o:", "    Ok(zq_v) => println(zq_v)", "    Err(zq_e) => println(zq_e)"]),
    ("match.option_missing_none", ["match opt_int():", "    Some(zq_v) => println(zq_v)"], 0, ["match opt_int():", "    Some(zq_v) => println(zq_v)", "    None => println(0)"]),
    ("match.option_missing_some", ["match opt_int():", "    None => println(0)"], 0, ["match opt_int():", "    Some(zq_v) => println(zq_v)", "    None => println(0)"]),
    ("match.result_missing_err", ["match res_str_err():", "    Ok(zq_v) => println(zq_v)"], 0, ["match res_str_err():", "    Ok(zq_v) => println(zq_v)", "    Err(zq_e) => println(zq_e)"]),
    ("ctor.missing_field", ["zq_p = P(x=1)"], 0, ["zq_p = P(x=1, name=\"n\")"]),
    ("ctor.unknown_field", ["zq_p = P(x=1, name=\"n\", zz_extra=3)"], 0, ["zq_p = P(x=1, name=\"n\")"]),
    ("ctor.duplicate_field", ["zq_p = P(x=1, name=\"n\", x=2)"], 0, ["zq_p = P(x=1, name=\"n\")"]),
    ("ctor.wrong_field_type", ["zq_p = P(x=\"s\", name=\"n\")"], 0, ["zq_p = P(x=1, name=\"n\")"]),
]
EXPR_RULES = [
    ("unknown_name.expr", "zq_unknown + 1", "1 + 1"),
    ("wrong_type.call_arg_expr", 'ok_int("s")', "ok_int(1)"),
    ("unknown_name.method", "P(x=1, name=\"n\").zq_nomethod()", "P(x=1, name=\"n\").calc(1)"),
]

# ---- statement contexts: wrap snippet lines (already dedented) into function-body lines ----


def ind(lines, n=1):
    return [("    " * n) + l for l in lines]


STMT_CONTEXTS = {
    "fn_top": lambda s: s,
    "if_body": lambda s: ["if 1 < 2:"] + ind(s),
    "elif_body": lambda s: ["if 1 > 2:", "    pass", "elif 1 < 2:"] + ind(s),
    "else_body": lambda s: ["if 1 > 2:", "    pass", "else:"] + ind(s),
    "while_body": lambda s: ["mut zw = 0", "while zw < 1:", "    zw += 1"] + ind(s),
    "for_body": lambda s: ["for zi in range(2):"] + ind(s),
    "match_arm_arrow_block": lambda s: ["match opt_int():", "    Some(zv) =>"] + ind(s, 2) + ["    None =>", "        pass"],
    "match_arm_case_block": lambda s: ["match opt_int():", "    case Some(zv):"] + ind(s, 2) + ["    case None:", "        pass"],
    "nested_if_for": lambda s: ["if 1 < 2:", "    for zi in range(1):"] + ind(s, 2),
    "nested_while_if_else": lambda s: ["mut zw = 0", "while zw < 1:", "    zw += 1", "    if zw > 5:", "        pass", "    else:"] + ind(s, 3),
    "nested_for_match_if": lambda s: ["for zi in range(1):", "    match opt_int():", "        Some(zv) =>", "            if zv > 0:"] + ind(s, 4) + ["        None =>", "            pass"],
    "after_loop": lambda s: ["for zi in range(1):", "    pass"] + s,
}
EXPR_CONTEXTS = {
    "let_value": lambda e: ["zq_e = %s" % e],
    "if_condition": lambda e: ["if %s > 0:" % e, "    pass"],
    "elif_condition": lambda e: ["if 1 > 2:", "    pass", "elif %s > 0:" % e, "    pass"],
    "while_condition": lambda e: ["while %s < 0:" % e, "    pass"],
    "call_argument": lambda e: ["zq_e = ok_int(%s)" % e],
    "fstring": lambda e: ['println(f"v={%s}")' % e.replace('"', "'") if '"' not in e else 'zq_e = %s' % e],
    "comprehension_element": lambda e: ["zq_e = [%s for zq_k in range(2)]" % e],
    "comprehension_filter": lambda e: ["zq_e = [zq_k for zq_k in range(2) if %s > 0]" % e],
    "closure_body": lambda e: ["zq_e = (zq_k) => %s" % e],
    "return_value": lambda e: ["return %s" % e],
    "binary_operand": lambda e: ["zq_e = 2 * ok_int(%s)" % e],
    "index_expr": lambda e: ["zq_l = [1, 2]", "zq_e = zq_l[%s]" % e],
    "match_subject": lambda e: ["match %s:" % e, "    1 => println(1)", "    _ => println(0)"],
}


def build_program(body_lines, where, ret="None"):
    """where: 'function' | 'method'. Returns source text."""
    if where == "function":
        fn = ["def zz_host(n: int) -> %s:" % ret] + ind(body_lines)
        if ret != "None":
            fn += ind(["return Ok(0)"] if ret.startswith("Result") else ["return 0"])
        return HOST_DECLS + "\n" + "\n".join(fn) + "\n"
    # method of a model
    m = ["model ZHost:", "    k: int", "", "    def zz_host(self, n: int) -> %s:" % ret] + ind(body_lines, 2)
    if ret != "None":
        m += ind(["return Ok(0)"] if ret.startswith("Result") else ["return 0"], 2)
    return HOST_DECLS + "\n" + "\n".join(m) + "\n"


def marker_range(src, body_lines, offending_line_text):
    """Byte range [a, b) of the offending statement: from the start of its first line to the end of its block."""
    b = src.encode("utf-8")
    needle = offending_line_text.encode("utf-8")
    a = b.find(needle)
    if a < 0:
        return None
    # line start
    ls = b.rfind(b"\n", 0, a) + 1
    indent = a - ls
    # statement extends over following lines that are more indented
    end = b.find(b"\n", a)
    end = len(b) if end < 0 else end
    while True:
        nxt = end + 1
        if nxt >= len(b):
            break
        le = b.find(b"\n", nxt)
        le = len(b) if le < 0 else le
        line = b[nxt:le]
        if line.strip() and (len(line) - len(line.lstrip(b" "))) > indent:
            end = le
        else:
            break
    return ls + indent, end


BENIGN = [
    ["zb{n} = {n}"], ["mut zc{n} = 0", "zc{n} += 1"], ['zs{n} = "t{n}"', "println(zs{n})"], ["if 1 < 2:", "    pass"],
    ["for zj{n} in range(1):", "    pass"], ["zl{n} = [1, 2]", "println(len(zl{n}))"], ["println({n})"], ["zp{n} = P(x={n}, name=\"q\")", "println(zp{n}.calc(1))"],
    ["zm{n} = opt_int()", "match zm{n}:", "    Some(zo{n}) => println(zo{n})", "    None => println(0)"],
    # expression forms with a body of their own: whatever state the checker keeps for the enclosing function must survive them
    ["zf{n} = (zx{n}) => zx{n} + 1", "println(zf{n}(2))"], ["zg{n} = [zy{n} * 2 for zy{n} in range(3) if zy{n} > 0]", "println(len(zg{n}))"],
    ["zh{n} = {{\"a\": 1}}", "println(len(zh{n}))"], ['println(f"v={{ok_int({n})}}")'], ["zt{n} = (1, \"a\")"],
    ["mut zw{n} = 0", "while zw{n} < 1:", "    zw{n} += 1"], ["zk{n} = KAdopt(w={n})", "println(zk{n}.scale(2))"],
    ["zr{n} = res_str_err()", "match zr{n}:", "    Ok(zv{n}) => println(zv{n})", "    Err(ze{n}) => println(ze{n})"],
]


def benign(r, base):
    """0-3 benign, well-typed statements with fresh names (host variation around the edited construct)."""
    if r is None:
        return []
    out = []
    for k in range(r.randint(0, 3)):
        out += [l.format(n=base + k) for l in r.choice(BENIGN)]
    return out


def gen_cells(r=None):
    """All (rule, context, where) cells with bad and good programs. With an rng, every cell gets random benign statements
    before and after the edited construct (inside the same block) - the host variation."""
    cells = []
    for rule, bad, off, good in STMT_RULES:
        ret = "Result[int, str]" if rule.startswith("try.") else "None"
        for ctx, wrap in STMT_CONTEXTS.items():
            for where in ("function", "method"):
                pre, post = benign(r, 100), benign(r, 200)
                bad_src = build_program(wrap(pre + bad + post), where, ret)
                good_src = build_program(wrap(pre + good + post), where, ret)
                rng_ = marker_range(bad_src, None, bad[off].strip())
                cells.append({"rule": rule, "ctx": ctx, "where": where, "bad": bad_src, "good": good_src, "range": rng_})
    for rule, bad_e, good_e in EXPR_RULES:
        for ctx, wrap in EXPR_CONTEXTS.items():
            for where in ("function", "method"):
                ret = "int" if ctx == "return_value" else "None"
                pre = benign(r, 100)
                post = benign(r, 200) if ctx != "return_value" else []
                bl, gl = pre + wrap(bad_e) + post, pre + wrap(good_e) + post
                bad_src = build_program(bl, where, ret)
                good_src = build_program(gl, where, ret)
                # offending construct: the statement line that contains the bad expression
                off_line = [l for l in bl if bad_e.replace('"', "'") in l or bad_e in l][0].strip()
                rng_ = marker_range(bad_src, None, off_line)
                cells.append({"rule": rule, "ctx": ctx, "where": where, "bad": bad_src, "good": good_src, "range": rng_})
    # self mutation under plain `self`
    for ctx, wrap in STMT_CONTEXTS.items():
        body_bad = wrap(benign(r, 100) + ["self.k = 5"] + benign(r, 200))
        bad_src = HOST_DECLS + "\nmodel ZHost:\n    k: int\n\n    def zz_host(self, n: int) -> None:\n" + "\n".join(ind(body_bad, 2)) + "\n"
        good_src = bad_src.replace("def zz_host(self,", "def zz_host(mut self,")
        cells.append({"rule": "mutate_immutable.self_field", "ctx": ctx, "where": "method", "bad": bad_src, "good": good_src,
                      "range": marker_range(bad_src, None, "self.k = 5")})
    # return type mismatch in helper-like functions
    for ctx, wrap in STMT_CONTEXTS.items():
        bad_src = HOST_DECLS + "\ndef zz_host(n: int) -> int:\n" + "\n".join(ind(wrap(benign(r, 100) + ['return "s"']))) + "\n    return 0\n"
        good_src = bad_src.replace('return "s"', "return 7")
        cells.append({"rule": "wrong_type.return", "ctx": ctx, "where": "function", "bad": bad_src, "good": good_src,
                      "range": marker_range(bad_src, None, 'return "s"')})
    # declaration-level rules
    decl = [
        ("wrong_type.field_default", "model ZD:\n    a: int = \"s\"\n", "model ZD:\n    a: int = 1\n", 'a: int = "s"'),
        ("trait.missing_required_method", "class ZC with Shape:\n    w: int\n", "class ZC with Shape:\n    w: int\n\n    def area(self) -> int:\n        return 1\n", "class ZC with Shape:"),
        ("trait.wrong_signature", "class ZC with Shape:\n    w: int\n\n    def area(self) -> str:\n        return \"s\"\n", "class ZC with Shape:\n    w: int\n\n    def area(self) -> int:\n        return 1\n", "class ZC with Shape:"),
        ("trait.model_missing_required_method", "model ZM with Shape:\n    w: int\n", "model ZM with Shape:\n    w: int\n\n    def area(self) -> int:\n        return 1\n", "model ZM with Shape:"),
        ("trait.requires_missing_field", "@requires(zfield: int)\ntrait ZT:\n    def get(self) -> int:\n        return self.zfield\n\n\nclass ZC with ZT:\n    other: int\n",
         "@requires(zfield: int)\ntrait ZT:\n    def get(self) -> int:\n        return self.zfield\n\n\nclass ZC with ZT:\n    zfield: int\n", "class ZC with ZT:"),
        ("trait.requires_wrong_field_type", "@requires(zfield: int)\ntrait ZT:\n    def get(self) -> int:\n        return self.zfield\n\n\nclass ZC with ZT:\n    zfield: str\n",
         "@requires(zfield: int)\ntrait ZT:\n    def get(self) -> int:\n        return self.zfield\n\n\nclass ZC with ZT:\n    zfield: int\n", "class ZC with ZT:"),
    ]
    for rule, bad_d, good_d, off in decl:
        for pos in ("before", "after"):
            main = "def zz_main() -> None:\n    pass\n"
            bad_src = HOST_DECLS + ("\n" + bad_d + "\n\n" + main if pos == "before" else "\n" + main + "\n\n" + bad_d)
            good_src = HOST_DECLS + ("\n" + good_d + "\n\n" + main if pos == "before" else "\n" + main + "\n\n" + good_d)
            cells.append({"rule": rule, "ctx": "decl_" + pos, "where": "decl", "bad": bad_src, "good": good_src, "range": marker_range(bad_src, None, off)})
    return cells


DECOY = '''def zz_decoy(n: int) -> int:
    mut zq = 0
    zq += n
    zq = zq + 1
    mut zq_p = P(x=1, name="d")
    zq_p.x = 2
    zq_p.bump(1)
    mut zq_xs = [1]
    zq_xs[0] = 2
    zq_xs.append(3)
    mut zq_x = 0
    zq_x += 1
    for zq_i in range(2):
        zq += zq_i
    for zq in range(2):
        pass
    for zq_p in [P(x=1, name="e")]:
        zq_p.x = 3
    return zq_x


'''


def vary(src, r):
    """Host variation that keeps byte offsets of `src` consistent (only a prefix is added): constants, and - half of the time - a
    sibling function in which the names the edited construct uses are legitimately mutable / loop variables (name reuse across scopes)."""
    n = r.randint(0, 3)
    pre = "".join("const ZK%d = %d\n" % (i, r.randint(0, 9)) for i in range(n))
    pre += ("\n\n" if n else "")
    if r.random() < 0.5:
        pre += DECOY
    return pre + src


def cell_feature(c):
    return "%s@%s/%s" % (c["rule"], c["ctx"], c["where"])


def decide(cell, bad_reply, good_reply, a, b):
    if good_reply.get("stage") != "check" or not good_reply.get("ok"):
        return Verdict("inconclusive", "precondition: the well-typed twin is not accepted (%s)" % (good_reply.get("errors") or [{}])[0].get("msg", good_reply.get("stage")))
    if "crash" in bad_reply or "timeout" in bad_reply or bad_reply.get("stage") == "panic":
        return Verdict("violated", "%s: checker crashed on the ill-typed program" % cell_feature(cell))
    if bad_reply.get("stage") in ("lex", "parse"):
        return Verdict("inconclusive", "mutant does not parse")
    if bad_reply.get("ok"):
        return Verdict("violated", "%s: ill-typed program accepted" % cell_feature(cell))
    errs = bad_reply.get("errors", [])
    src_b = cell.get("_src_bytes")
    for e in errs:
        s_, e_ = e["start"], e["end"]
        if src_b is not None:
            # a span may include the layout (newline/indent/dedent) that follows the construct: compare its non-blank extent
            while e_ > s_ and src_b[e_ - 1:e_] in (b" ", b"\n", b"\t", b"\r"):
                e_ -= 1
            while s_ < e_ and src_b[s_:s_ + 1] in (b" ", b"\n", b"\t", b"\r"):
                s_ += 1
        if a <= s_ and e_ <= b:
            return Verdict("held")
    return Verdict("violated", "%s: rejected, but no diagnostic lies inside the offending construct" % cell_feature(cell),
                   {"construct": [a, b], "errors": errs[:4]})


def eval_case(case):
    src_bad, src_good = case["bad"], case["good"]
    r = hc.run_requests([{"op": "check", "src": src_bad}, {"op": "check", "src": src_good}], nproc=1)
    case = dict(case, _src_bytes=src_bad.encode("utf-8"))
    return decide(case, r[0], r[1], case["range"][0], case["range"][1])


def main(tier, seed, replay=None):
    run = Run("C03", tier, seed)
    run.rule = ("rule x context matrix: each cell takes a well-typed host program and its single-edit ill-typed twin (the edit breaks exactly "
                "one documented static rule at a known source range); the real TypeChecker must reject the twin with at least one diagnostic "
                "whose span lies inside the offending construct, and must accept the host (precondition); k host variations per cell; "
                "distinct = (rule, context, host kind, variation); non-trivial by construction (host has declarations + nested blocks)")
    run.assumptions = ["the offending construct is the smallest statement/declaration containing the edit (its first line to the end of its block)",
                       "span containment is checked through the library API (the CLI prints only line:col)"]
    build_harness()
    if replay:
        run.record(eval_case(replay["case"]), replay["case"], key="replay")
        return run.finish()
    run.run_known(eval_case)
    avoid = quarantined("C03")
    k = 3 if tier == "quick" else 40
    rng = random.Random(seed * 23 + 1)
    reqs, meta = [], []
    cells = []
    for v in range(k):
        cells_v = gen_cells(random.Random(rng.getrandbits(48)) if v else None)
        if v == 0:
            cells = cells_v
        for c in cells_v:
            if c["range"] is None:
                continue
            if cell_feature(c) in avoid or (c["rule"] + "@*") in avoid or ("*@" + c["ctx"]) in avoid:
                continue
            r = random.Random(rng.getrandbits(48))
            bad = vary(c["bad"], r)
            shift = len(bad.encode("utf-8")) - len(c["bad"].encode("utf-8"))
            good = ("x" * 0) + bad[:0] + (bad[:len(bad) - len(c["bad"])] + c["good"])
            reqs.append({"op": "check", "src": bad})
            reqs.append({"op": "check", "src": good})
            meta.append((c, bad, good, c["range"][0] + shift, c["range"][1] + shift, v))
    res = hc.run_requests(reqs, nproc=NCPU, shard=400)
    for i, (c, bad, good, a, b, v) in enumerate(meta):
        verdict = decide(dict(c, _src_bytes=bad.encode("utf-8")), res[2 * i], res[2 * i + 1], a, b)
        run.feature("rule." + c["rule"], "ctx." + c["ctx"])
        if verdict.status == "violated":
            kind = verdict.signature.split(": ", 1)[1][:30]
            d = run.extra.setdefault("violations_by_rule", {}).setdefault(c["rule"] + " | " + kind, [])
            if (c["ctx"] + "/" + c["where"]) not in d:
                d.append(c["ctx"] + "/" + c["where"])
        run.record(verdict, {"rule": c["rule"], "ctx": c["ctx"], "where": c["where"], "bad": bad, "good": good, "range": [a, b]},
                   key=(c["rule"], c["ctx"], c["where"], v))
    run.extra["cells"] = len(cells)
    run.extra["quarantined_cells"] = sorted(avoid)
    for c in cells[:2] + cells[-1:]:
        run.sample({"rule": c["rule"], "context": c["ctx"], "host": c["where"], "offending_range": c["range"], "ill_typed_tail": c["bad"][-260:]})
    run.min_held = 300
    return run.finish()
