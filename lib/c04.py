"""C04 - arithmetic kernels vs Python big-int / float oracle."""
import kern
from common import Run, Verdict, build_kernels, NCPU


def eval_case(case):
    req = tuple(case["req"])
    if req[0] in ("F",):
        req = (req[0], float(req[1]), float(req[2]))
    return kern.eval_one("C04", _decode(case), case.get("profile", "release"))


def _decode(case):
    r = case["req"]
    k = r[0]
    def f(x):
        return kern.bits2f(int(x, 16)) if isinstance(x, str) else x
    if k == "I":
        return ("I", int(r[1]), int(r[2]))
    if k == "F":
        return ("F", f(r[1]), f(r[2]))
    if k == "M":
        return ("M", int(r[1]), f(r[2]))
    return ("N", f(r[1]), int(r[2]))


def _encode_case(req, profile):
    k = req[0]
    enc = lambda x: kern.fenc(x) if isinstance(x, float) else x
    return {"req": [k, enc(req[1]), enc(req[2])], "profile": profile, "readable": repr(req)}


def main(tier, seed, replay=None):
    run = Run("C04", tier, seed)
    run.rule = ("one evaluation = one operand pair pushed through every kernel entry point of incan_core and incan_stdlib::num "
                "(%, //, / for int/int, float/float, int/float, float/int) and compared with Python big-int / float arithmetic; "
                "distinct = (pairing, sign+magnitude class of each operand, zero-remainder?) class; non-trivial = operands not both in {0,1}")
    run.assumptions = ["CPython float arithmetic is IEEE-754 binary64", "float % is compared with Python's a % b up to the sign of zero",
                       "float // is floor(IEEE quotient) and / promotes ints with `as f64` (the property's wording, not Python's big-int division)",
                       "i64::MIN // -1 is excluded by the property; i64::MIN % -1 is expected to be 0"]
    build_kernels(dev=True)
    if replay:
        v = eval_case(replay["case"])
        run.record(v, replay["case"], key="replay")
        return run.finish()
    run.run_known(eval_case)
    nrand = 1600000 if tier == "quick" else 40000000
    reqs = kern.gen_c04_boundary()
    nb = len(reqs)
    for k in range(NCPU):
        reqs += kern.gen_c04_random(seed * 7919 + k, nrand // NCPU)
    for profile in ("release", "dev"):
        res = kern.run_parallel("C04", reqs if profile == "release" else reqs[:nb + nrand // 8], profile, NCPU)
        for n, bad, keys, inc in res:
            if inc:
                run.record(Verdict("inconclusive", inc), count=1)
                continue
            if profile == "release":
                run.evaluations += n - len(bad)
                run.held += n - len(bad)
                run.distinct.update(keys)
                for req, sig in bad:
                    run.record(Verdict("violated", sig), _encode_case(req, profile), key=None)
            else:
                # dev profile (overflow-checks + debug assertions) is an extra detector: advisory only
                run.extra["dev_profile_evaluations"] = run.extra.get("dev_profile_evaluations", 0) + n
                if bad:
                    run.extra.setdefault("dev_profile_advisories", []).extend(sig for _, sig in bad[:10])
    for r in reqs[:3] + reqs[nb:nb + 3]:
        run.sample(repr(r), cap=6)
    run.extra["boundary_cross_product_pairs"] = nb
    run.extra["random_pairs"] = len(reqs) - nb
    if tier == "thorough":
        # Miri on a boundary-biased sample (about 0.1 s per request): UB is a violation, overflow panics are advisory
        import random as _r
        sample = _r.Random(seed).sample(reqs, min(len(reqs), 480))
        ran, adv = 0, []
        for res in kern.miri_parallel("C04", sample):
            ran += res["ran"]
            if res["error"]:
                run.note("miri: " + res["error"])
            for ub in res["ub"]:
                run.record(Verdict("violated", "Miri reports undefined behaviour in a runtime kernel: " + ub.split("\n")[0][:120], {"report": ub}), {"miri": True}, key=None)
            adv += res["mismatch"][:5]
        run.extra["miri_requests_interpreted"] = ran
        run.extra["miri_advisories"] = adv[:10]
    run.min_held = 1000
    return run.finish()
