"""C05 - indexing / slicing / range / dict kernels vs CPython."""
import kern
from common import Run, Verdict, build_kernels, NCPU


def _decode(case):
    r = case["req"]
    k = r[0]
    if k == "E":
        return ("E", r[1], list(r[2]))
    return tuple(r)


def eval_case(case):
    if "parse_src" in case:
        import hc
        from common import build_harness
        build_harness()
        r = hc.run_requests([{"op": "ast", "src": case["parse_src"]}], nproc=1)[0]
        if r.get("ok"):
            return Verdict("held")
        return Verdict("violated", "documented slice spelling does not parse: %s" % r.get("msg"))
    return kern.eval_one("C05", _decode(case), case.get("profile", "release"))


def main(tier, seed, replay=None):
    run = Run("C05", tier, seed)
    run.rule = ("one evaluation = one (sequence, index | start:end:step) or range(a,b,c) or dict lookup pushed through every entry point "
                "(incan_core::strings, incan_stdlib::{strings,collections,iter}) and compared with CPython on the same Unicode scalars; "
                "distinct = (entry kind, length class, sign/presence/clamp class of each bound, error/ok); non-trivial = non-empty sequence")
    run.assumptions = ["CPython str/list/range semantics are the reference (the property names Python)",
                       "range is compared on length class and its first cap elements without materialising",
                       "a single operation that yields no result within 20 s counts as non-terminating"]
    build_kernels(dev=True)
    if replay:
        run.record(eval_case(replay["case"]), replay["case"], key="replay")
        return run.finish()
    run.run_known(eval_case)
    quick = tier == "quick"
    reqs = kern.gen_c05_boundary(3 if quick else 5)
    nidx = len(reqs)
    reqs += kern.gen_c05_slices_exh()
    reqs += kern.gen_c05_slices(seed, 150 if quick else 4000, 120 if quick else 600)
    reqs += kern.gen_c05_ranges(seed + 1, 20000 if quick else 600000)
    reqs += kern.gen_c05_dicts(seed + 2, 5000 if quick else 100000)
    for profile in ("release", "dev"):
        sub = reqs if profile == "release" else reqs[::7]
        res = kern.run_parallel("C05", sub, profile, NCPU, shard=15000)
        for n, bad, keys, inc in res:
            if inc:
                run.record(Verdict("inconclusive", inc))
                continue
            if profile == "release":
                run.evaluations += n - len(bad)
                run.held += n - len(bad)
                run.distinct.update(keys)
                for req, sig in bad:
                    run.record(Verdict("violated", sig), {"req": list(req), "profile": profile}, key=None)
            else:
                run.extra["dev_profile_evaluations"] = run.extra.get("dev_profile_evaluations", 0) + n
                if bad:
                    run.extra.setdefault("dev_profile_advisories", []).extend(sig for _, sig in bad[:10])
    for r in (reqs[5], reqs[nidx + 77], reqs[-1], reqs[len(reqs) // 2]):
        run.sample(repr(r), cap=6)
    run.extra["index_requests_exhaustive_over_strings_up_to_len"] = 3 if quick else 5
    if tier == "thorough":
        # Miri on a boundary-biased sample (about 0.1 s per request): UB is a violation, overflow panics are advisory
        import random as _r
        sample = _r.Random(seed).sample(reqs, min(len(reqs), 480))
        ran, adv = 0, []
        for res in kern.miri_parallel("C05", sample):
            ran += res["ran"]
            if res["error"]:
                run.note("miri: " + res["error"])
            for ub in res["ub"]:
                run.record(Verdict("violated", "Miri reports undefined behaviour in a runtime kernel: " + ub.split("\n")[0][:120], {"report": ub}), {"miri": True}, key=None)
            adv += res["mismatch"][:5]
        run.extra["miri_requests_interpreted"] = ran
        run.extra["miri_advisories"] = adv[:10]
    run.min_held = 1000
    return run.finish()
