"""C06 - compile-time evaluation of const initialisers agrees with run-time evaluation of the same expression."""
import random
import re
import subprocess
import tempfile
import os
import shutil

import hc
import incanref
import progs
from common import BUILD, INCAN, NCPU, Run, Verdict, base_env, build_harness, build_repo, quarantined, sha
from incanref import pp, Unprintable

SCR = os.path.join(BUILD, "scratch")
WORDS = ["abc", "héllo", "", "x", "a b", "𝄞z", "Incan", "ab"]


BIG_INTS = [2 ** 53, 2 ** 53 + 1, 2 ** 53 + 2, 2 ** 62, 2 ** 62 + 1, 2 ** 63 - 2, 2 ** 63 - 1]


class G:
    def __init__(self, r, consts):
        self.r = r
        self.consts = consts  # name -> (type, expr)

    def ref(self, ty):
        c = [n for n, (t, _) in self.consts.items() if t == ty]
        return ("var", self.r.choice(c)) if c and self.r.random() < 0.35 else None

    def int_(self, d=0):
        r = self.r
        x = self.ref("int")
        if x is not None and (d > 0 or r.random() < 0.5):
            return x
        if d >= 2 or r.random() < 0.3:
            return ("int", r.choice([0, 1, 2, 3, 5, 7, 10, 12, 100]))
        k = r.random()
        a = lambda: self.atom_int(d + 1)
        if k < 0.2:
            return ("bin", "+", self.int_(d + 1), self.term_int(d + 1))
        if k < 0.4:
            return ("bin", "-", self.int_(d + 1), self.term_int(d + 1))
        if k < 0.55:
            return ("bin", "*", self.term_int(d + 1), a())
        if k < 0.7:
            return ("bin", "//", self.term_int(d + 1), a())
        if k < 0.85:
            return ("bin", "%", self.term_int(d + 1), a())
        if k < 0.93:
            return ("pow", a(), ("int", r.randint(0, 3)), "int")
        return ("neg", a())

    def atom_int(self, d):
        x = self.ref("int")
        if x is not None:
            return x
        k = self.r.random()
        if k < 0.55:
            return ("int", self.r.choice([0, 1, 2, 3, 4, 6, 7, 9]))
        if k < 0.85:
            # negative operands: the sign rules of // and % only show with them (and with divisors that divide exactly)
            return ("neg", ("int", self.r.choice([1, 2, 3, 4, 6, 7])))
        if k < 0.93:
            return ("int", self.r.choice([12, 24, 36, 100, 255, 1000]))
        return ("int", self.r.choice(BIG_INTS))

    def term_int(self, d):
        if self.r.random() < 0.6 or d >= 2:
            return self.atom_int(d)
        return ("bin", "*", self.atom_int(d), self.atom_int(d))

    def float_(self, d=0):
        r = self.r
        x = self.ref("float")
        if x is not None:
            return x
        fl = lambda: ("float", r.choice([0.5, 1.5, 2.0, 2.25, 4.0, 10.0, 1.1, 0.3, 2.7, 0.1]))
        k = r.random()
        if k < 0.2:
            return fl()
        if k < 0.38:
            # float base, int literal exponent: whatever routine folds it must be the one the run-time expression uses
            # (bases that are not dyadic, so that different routines differ in the last digit)
            return ("pow", ("float", r.choice([1.1, 0.3, 2.7, 0.1, 1.7, 3.3])), ("int", r.randint(3, 12)), "float")
        if k < 0.45:
            return ("bin", "/", self.atom_int(1), self.atom_int(1))
        if k < 0.6:
            return ("bin", r.choice(["+", "-", "*"]), fl(), fl())
        if k < 0.75:
            return ("bin", r.choice(["+", "*", "-"]), self.atom_int(1), fl())
        if k < 0.85:
            return ("bin", r.choice(["//", "%"]), fl(), self.atom_int(1))
        if k < 0.93:
            return ("pow", self.atom_int(1), ("neg", ("int", r.randint(1, 2))), "float")
        return ("bin", "/", fl(), fl())

    def bool_(self, d=0):
        r = self.r
        x = self.ref("bool")
        if x is not None:
            return x
        k = r.random()
        if k < 0.1:
            return ("bool", r.random() < 0.5)
        if k < 0.2:
            # neighbouring ints beyond 2^53: a comparison routed through floating point cannot tell them apart
            b = r.choice(BIG_INTS)
            return ("cmp", r.choice(["==", "!=", "<", "<=", ">", ">="]), ("int", b), ("int", b + r.choice([-1, 0, 1]) if b < 2 ** 63 - 1 else b - r.choice([0, 1])))
        if k < 0.5:
            return ("cmp", r.choice(["==", "!=", "<", "<=", ">", ">="]), self.term_int(1), self.term_int(1))
        if k < 0.6:
            return ("cmp", r.choice(["<", ">="]), ("float", 1.5), self.atom_int(1))
        if k < 0.7 and d < 2:
            return ("and", self.bool_atom(), self.bool_atom())
        if k < 0.8 and d < 2:
            return ("or", self.bool_atom(), self.bool_atom())
        if k < 0.9:
            return ("in", r.random() < 0.4, ("str", r.choice(["a", "b", "é", "zz", ""])), self.str_atom())
        return ("cmp", r.choice(["==", "<"]), self.str_atom(), self.str_atom())

    def bool_atom(self):
        x = self.ref("bool")
        if x is not None:
            return x
        return ("bool", self.r.random() < 0.5) if self.r.random() < 0.3 else ("cmp", self.r.choice(["<", "=="]), self.atom_int(1), self.atom_int(1))

    def str_atom(self):
        x = self.ref("str")
        if x is not None:
            return x
        return ("str", self.r.choice(WORDS))

    def str_(self, d=0):
        r = self.r
        k = r.random()
        if k < 0.25:
            return self.str_atom()
        if k < 0.5:
            return ("concat", self.str_atom(), self.str_atom())
        if k < 0.6:
            return ("concat", ("concat", self.str_atom(), ("str", "-")), self.str_atom())
        # indices on both sides of every boundary: in range, just out of range, and far out of range (up to twice the length and beyond)
        idx = lambda: r.choice([("int", r.randint(0, 6)), ("neg", ("int", r.randint(1, 6))), self.atom_int(1),
                                ("neg", ("int", r.randint(4, 14))), ("int", r.randint(5, 14))])
        if k < 0.8:
            return ("idx", "str", self.str_atom(), idx())
        a = r.choice([None, idx()])
        b = r.choice([None, idx()])
        c = r.choice([None, None, ("int", 2), ("neg", ("int", 1)), ("int", 0), ("int", 1)])
        return ("slice", "str", self.str_atom(), a, b, c)

    def expr(self, ty):
        for _ in range(20):
            e = {"int": self.int_, "float": self.float_, "bool": self.bool_, "str": self.str_}[ty]()
            try:
                pp(e)
                return e
            except Unprintable:
                continue
        return {"int": ("int", 1), "float": ("float", 1.5), "bool": ("bool", True), "str": ("str", "x")}[ty]


def gen_items(r, n):
    """n const items forming a DAG: [(name, type, expr)]"""
    consts = {}
    items = []
    for i in range(n):
        ty = r.choice(["int", "int", "float", "bool", "str", "str"])
        g = G(r, consts)
        e = g.expr(ty)
        name = "K%d" % i
        consts[name] = (ty, e)
        items.append((name, ty, e))
    return items


def ref_eval(items):
    """Reference values (incanref): name -> ("ok", value) | ("panic", text) | ("ood",)"""
    env = {}
    out = {}
    it = incanref.Interp([])
    for name, ty, e in items:
        try:
            v = it.ev(e, [dict(env)])
            env[name] = v
            out[name] = ("ok", v)
        except incanref.IncanPanic as p:
            out[name] = ("panic", p.text())
        except (incanref.OutOfDomain, KeyError):
            out[name] = ("ood",)
    return out


def const_program(items, only=None):
    lines = []
    for name, ty, e in items:
        lines.append("const %s: %s = %s" % (name, ty, pp(e)))
    return "\n".join(lines) + "\n"


def value_program(items, accepted):
    """Program printing each accepted const and the same expression evaluated in a function."""
    STR_CONSTS.clear()
    STR_CONSTS.update(n for n, t, e in items if t == "str")
    L = []
    for name, ty, e in items:
        if name in accepted:
            L.append("const %s: %s = %s" % (name, ty, pp(e)))
    L += ["", ""]
    for name, ty, e in items:
        if name in accepted and not has_concat(e):
            L += ["def f_%s() -> %s:" % (name, ty), "    return %s" % pp(e), "", ""]
    main = []
    for name, ty, e in items:
        if name not in accepted:
            continue
        if ty == "bool":
            main += ['println("@C %s")' % name, "if %s:" % name, '    println("T")', "else:", '    println("F")',
                     'println("@F %s")' % name, "if f_%s():" % name, '    println("T")', "else:", '    println("F")']
        elif has_concat(e):
            # `str + str` in a function body does not build on this tree (known finding C02-str-ownership): const side only
            main += ['println("@C %s")' % name, "println(%s)" % name]
        else:
            main += ['println("@C %s")' % name, "println(%s)" % name, 'println("@F %s")' % name, "println(f_%s())" % name]
    L += ["def main() -> None:"] + ["    " + l for l in main]
    return "\n".join(L) + "\n"


def has_concat(e):
    """No buildable run-time twin: string concatenation anywhere, or a bare reference to a str const returned from a
    function (both known C02 findings about &str/String in function bodies)."""
    if not isinstance(e, tuple):
        return False
    if e[0] == "concat":
        return True
    if e[0] == "var" and e[1] in STR_CONSTS:
        return True
    return any(has_concat(x) for x in e[1:] if isinstance(x, tuple) and x[0] != "var")


STR_CONSTS = set()


def parse_const_dbg(s):
    m = re.fullmatch(r"Int\((-?\d+)\)", s)
    if m:
        return int(m.group(1))
    m = re.fullmatch(r"Float\((.*)\)", s)
    if m:
        return float(m.group(1))
    m = re.fullmatch(r"Bool\((true|false)\)", s)
    if m:
        return m.group(1) == "true"
    m = re.fullmatch(r'FrozenStr\("(.*)"\)', s, re.S)
    if m:
        body = m.group(1)
        try:
            return bytes(body, "utf-8").decode("unicode_escape").encode("latin-1").decode("utf-8") if "\\" in body else body
        except Exception:
            return body
    return None


def same_value(a, b):
    if isinstance(a, bool) or isinstance(b, bool):
        return a is b
    if isinstance(a, float) or isinstance(b, float):
        try:
            return abs(float(a) - float(b)) <= 1e-9 * max(1.0, abs(float(a)))
        except (TypeError, ValueError):
            return False
    return a == b


def segs(stdout):
    out, cur = {}, None
    for l in stdout.split("\n"):
        m = re.fullmatch(r"@(C|F) (\S+)", l)
        if m:
            cur = (m.group(1), m.group(2))
            out[cur] = []
        elif cur:
            out[cur].append(l)
    return out


def check_group(items, chk, res, run):
    """Evaluate one group of consts: chk = harness check reply on the const-only program; res = build/run of the value program."""
    refv = ref_eval(items)
    consts = chk.get("consts", {}) if chk else {}
    errors = chk.get("errors", []) if chk else []
    if chk.get("stage") in ("lex", "parse", "panic"):
        run.record(Verdict("violated", "const program fails at stage %s" % chk.get("stage")), {"items": items_enc(items)})
        return
    accepted = set(n for n, _, _ in items) if chk.get("ok") else None
    return refv, consts, errors


def items_enc(items):
    return [[n, t, e] for n, t, e in items]


def detuple(x):
    if isinstance(x, list):
        return tuple(detuple(y) for y in x)
    return x


def cycle_scenarios():
    out = []
    for n in (1, 2, 3, 4):
        names = ["Z%d" % i for i in range(n)]
        lines = ["const %s: int = %s + 1" % (names[i], names[(i + 1) % n]) for i in range(n)]
        lines.append("const FINE: int = 3")
        for perm in (lines, list(reversed(lines))):
            out.append({"kind": "cycle", "len": n, "src": "\n".join(perm) + "\n\n\ndef main() -> None:\n    println(FINE)\n"})
    out.append({"kind": "cycle", "len": 2, "src": "const A: str = B + \"x\"\nconst B: str = A + \"y\"\n\n\ndef main() -> None:\n    println(1)\n"})
    return out


def decide_cycle(s):
    d = tempfile.mkdtemp(prefix="c06_", dir=SCR)
    try:
        with open(os.path.join(d, "c.incn"), "w") as f:
            f.write(s["src"])
        try:
            p = subprocess.run([INCAN, "--check", "c.incn"], cwd=d, env=base_env(), stdout=subprocess.PIPE, stderr=subprocess.PIPE, text=True, timeout=30)
        except subprocess.TimeoutExpired:
            return Verdict("violated", "a const dependency cycle of length %d makes `incan --check` loop (no verdict within 30 s)" % s["len"])
        if p.returncode == 0:
            return Verdict("violated", "a const dependency cycle of length %d is accepted" % s["len"])
        if p.returncode != 1 or not (p.stderr + p.stdout).strip():
            return Verdict("violated", "a const cycle ends with exit %s and no diagnostic" % p.returncode)
        return Verdict("held")
    finally:
        shutil.rmtree(d, ignore_errors=True)


def evaluate_groups(groups, run):
    """groups: list of item lists."""
    chks = hc.run_requests([{"op": "check", "src": const_program(g), "consts": True} for g in groups], nproc=NCPU, shard=50)
    # classify per const: accepted (all-accept groups) or find rejected consts by checking prefixes individually
    plans = []
    for g, chk in zip(groups, chks):
        if "crash" in chk or "timeout" in chk or chk.get("stage") in ("lex", "parse", "panic"):
            run.record(Verdict("violated", "const evaluation crashed or stalled (stage %s)" % chk.get("stage", "process")), {"kind": "group", "items": items_enc(g)})
            continue
        plans.append((g, chk))
    # for rejected groups, find which consts are rejected: re-check each const with its dependencies only
    jobs, meta = [], []
    for g, chk in plans:
        refv = ref_eval(g)
        if chk.get("ok"):
            accepted = set(n for n, _, _ in g)
            rejected = {}
        else:
            accepted, rejected = set(), {}
            # single-const programs (with the consts they reference, transitively accepted ones)
            reqs = []
            for i, (n, t, e) in enumerate(g):
                reqs.append({"op": "check", "src": const_program([x for x in g[:i] if x[0] in accepted or True][:0] + deps_of(g, i) + [g[i]]), "consts": True})
            rep = hc.run_requests(reqs, nproc=1)
            for (n, t, e), r in zip(g, rep):
                if r.get("ok"):
                    accepted.add(n)
                else:
                    rejected[n] = (r.get("errors") or [{}])[0].get("msg", "")
            # a const depending on a rejected const is not evaluated: drop dependants from both sets
            bad = set(rejected)
            for n, t, e in g:
                if refs(e) & bad and n in accepted:
                    accepted.discard(n)
        # consts whose reference evaluation leaves the modelled domain (overflow, inf) are not built
        ood = set(n for n, v in refv.items() if v[0] == "ood")
        changed = True
        while changed:
            changed = False
            for n, t, e in g:
                if n not in ood and refs(e) & ood:
                    ood.add(n)
                    changed = True
        accepted = accepted - ood
        meta.append((g, chk, refv, accepted, rejected))
        jobs.append({"name": "cv", "files": {"cv.incn": value_program(g, accepted)}, "entry": "cv.incn", "check": True, "run": True} if accepted else None)
    real = [j for j in jobs if j]
    res = iter(progs.run_jobs(real, 8))
    for (g, chk, refv, accepted, rejected), job in zip(meta, jobs):
        r = next(res) if job else None
        decide_group(g, chk, refv, accepted, rejected, r, run, job["files"]["cv.incn"] if job else None)


def refs(e):
    out = set()
    if isinstance(e, tuple):
        if e[0] == "var":
            out.add(e[1])
        for x in e[1:]:
            out |= refs(x)
    return out


def deps_of(g, i):
    need = set()
    stack = [g[i][2]]
    by = {n: (n, t, e) for n, t, e in g}
    order = []
    def visit(n):
        if n in need or n not in by:
            return
        need.add(n)
        for d in refs(by[n][2]):
            visit(d)
        order.append(by[n])
    for d in refs(g[i][2]):
        visit(d)
    return order


def decide_group(g, chk, refv, accepted, rejected, res, run, text):
    consts = chk.get("consts", {}) if chk.get("ok") else {}
    seg = {}
    runinfo = None
    if res is not None:
        ck, b, rn = res["check"], res["build"], res["run"]
        if ck is None or ck.get("rc") != 0:
            run.record(Verdict("violated", "consts accepted by the checker in-process are rejected by `incan --check` in the value program"), {"kind": "group", "items": items_enc(g), "src": text})
            return
        if b is None or b.get("rc") != 0:
            import casecheck
            err = casecheck.first_rustc_error((b or {}).get("stderr", "") + (b or {}).get("stdout", ""))
            run.record(Verdict("violated", "accepted const initialisers do not build: %s" % err[:90]), {"kind": "group", "items": items_enc(g), "src": text}, key=sha(text)[:10])
            return
        if rn is None or rn.get("timeout"):
            run.record(Verdict("inconclusive", "run watchdog"))
            return
        seg = segs(rn["stdout"])
        runinfo = rn
    STR_CONSTS.clear()
    STR_CONSTS.update(n2 for n2, t2, e2 in g if t2 == "str")
    for n, t, e in g:
        case = {"kind": "single", "items": items_enc(deps_of(g, [x[0] for x in g].index(n)) + [(n, t, e)]), "name": n}
        key = (t, shape(e))
        rv = refv[n]
        if n in rejected:
            # error parity: the run-time evaluation of the same expression must fail too (reference as the run-time model)
            if rv[0] == "panic":
                kind = rv[1].split(":")[0]
                if kind.split("Error")[0].lower() not in rejected[n].lower().replace(" ", "") and rv[1].split(": ", 1)[1] not in rejected[n]:
                    run.record(Verdict("violated", "const initialiser is rejected with %r, evaluating it at run time fails with %r" % (rejected[n][:60], rv[1])), case, key=key)
                else:
                    run.record(Verdict("held"), key=key)
            elif rv[0] == "ok":
                run.record(Verdict("violated", "const initialiser is rejected (%s) although the same expression evaluates to %r at run time [%s]" % (rejected[n][:50], rv[1], shape(e))), case, key=key)
            else:
                run.record(Verdict("inconclusive", "reference left its domain"))
            continue
        if n not in accepted:
            run.record(Verdict("inconclusive", "depends on a rejected const"))
            continue
        if rv[0] == "panic":
            # accepted at compile time, so the run-time evaluation panics: disagreement unless the program indeed stops there
            got_c = seg.get(("C", n))
            run.record(Verdict("violated", "const initialiser whose run-time evaluation fails with %r is accepted at compile time [%s]" % (rv[1], shape(e))), case, key=key)
            continue
        if rv[0] != "ok":
            run.record(Verdict("inconclusive", "reference left its domain"))
            continue
        cl, fl = seg.get(("C", n)), seg.get(("F", n))
        if has_concat(e) and cl:
            fl = cl  # no run-time twin for string concatenation (see value_program)
        if cl is None or fl is None or not cl or not fl:
            run.record(Verdict("inconclusive", "value lines missing (an earlier const stopped the program)"))
            continue
        cval, fval = cl[0], fl[0]
        want = rv[1]
        def conv(s):
            if t == "bool":
                return s == "T"
            if t == "int":
                try:
                    return int(s)
                except ValueError:
                    return s
            if t == "float":
                try:
                    return float(s)
                except ValueError:
                    return s
            return s
        cv, fv = conv(cval), conv(fval)
        # const vs its run-time twin: the property says *exactly* the same - both are printed by the same program, so the texts must
        # be identical (the comparison with the Python reference below stays tolerant in the last digits)
        if cval != fval or not same_value(cv, fv):
            run.record(Verdict("violated", "const holds %r, the same expression evaluated in a function gives %r [%s %s]" % (cv, fv, t, shape(e))), case, key=key)
            continue
        if not same_value(cv, want):
            run.record(Verdict("violated", "const and function agree on %r, the documented semantics give %r [%s %s]" % (cv, want, t, shape(e))), case, key=key)
            continue
        dbg = consts.get(n)
        if dbg is not None:
            pv = parse_const_dbg(dbg)
            if pv is not None and not same_value(pv, want):
                run.record(Verdict("violated", "compiler's recorded const value %s differs from the value %r computed at run time [%s]" % (dbg[:40], want, shape(e))), case, key=key)
                continue
        run.record(Verdict("held"), key=key)
        run.feature("type." + t)


def shape(e):
    if not isinstance(e, tuple):
        return "?"
    k = e[0]
    if k in ("int", "float", "bool", "str"):
        return k[0]
    if k == "var":
        return "K"
    if k == "bin":
        return "(%s%s%s)" % (shape(e[2]), e[1], shape(e[3]))
    if k == "cmp":
        return "(%s%s%s)" % (shape(e[2]), e[1], shape(e[3]))
    if k == "pow":
        return "(%s**%s)" % (shape(e[1]), shape(e[2]))
    if k in ("and", "or", "concat"):
        return "(%s %s %s)" % (shape(e[1]), k, shape(e[2]))
    if k in ("neg", "not"):
        return "%s%s" % (k, shape(e[1]))
    if k == "idx":
        return "%s[%s]" % (shape(e[2]), shape(e[3]))
    if k == "slice":
        return "%s[%s:%s:%s]" % (shape(e[2]), shape(e[3]) if e[3] else "", shape(e[4]) if e[4] else "", shape(e[5]) if e[5] else "")
    if k == "in":
        return "(%s %sin %s)" % (shape(e[2]), "not " if e[1] else "", shape(e[3]))
    return k


def eval_case(case):
    tmp = Run("C06", "quick", 0)
    tmp.min_held = 0
    if case.get("kind") == "cycle":
        return decide_cycle(case)
    items = [(n, t, detuple(e)) for n, t, e in case["items"]]
    evaluate_groups([items], tmp)
    name = case.get("name")
    if tmp.violations:
        return Verdict("violated", tmp.violations[0]["signature"])
    if tmp.held:
        return Verdict("held")
    return Verdict("inconclusive", "not decided")


def main(tier, seed, replay=None):
    run = Run("C06", tier, seed)
    quick = tier == "quick"
    run.rule = ("one evaluation = one const-evaluable expression e (literals, references to other consts in a DAG of depth <= 5, unary -, "
                "+ - * // % ** with literal exponent, / and mixed float arithmetic, comparisons, and/or, string + chains, string index/slice "
                "with in- and out-of-range constants incl. zero step, in/not in) evaluated on both real paths: `const C: T = e` and "
                "`def f() -> T: return e` printed by one compiled program; they must print the same value, equal to the reference "
                "interpreter's and to the compiler's recorded TypeCheckInfo.const_values; a const the compiler rejects must fail at run time "
                "with the same error kind and vice versa; const cycles of length 1-4 must be reported by `incan --check` within a watchdog; "
                "distinct = (type, expression shape)")
    run.assumptions = ["grouping parentheses are not generated (they are dropped at run time: known finding C01-paren-grouping-dropped)"]
    build_repo()
    build_harness()
    os.makedirs(SCR, exist_ok=True)
    if replay:
        run.record(eval_case(replay["case"]), replay["case"], key="replay")
        return run.finish()
    run.run_known(eval_case)
    rng = random.Random(seed * 67 + 29)
    ngroups = 30 if quick else 500
    groups = [gen_items(random.Random(rng.getrandbits(48)), 10) for _ in range(ngroups)]
    evaluate_groups(groups, run)
    for s in cycle_scenarios():
        run.record(decide_cycle(s), s, key=("cycle", s["len"], sha(s["src"])[:6]))
        run.feature("cycle.len%d" % s["len"])
    run.sample(const_program(groups[0]))
    run.extra["groups"] = ngroups
    run.min_held = 100
    return run.finish()
