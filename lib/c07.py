"""C07 - numeric result types follow the documented table in every phase (checker verdicts, rustc verdict, printed value)."""
import itertools
import random

import hc
import incanref
import progs
from common import NCPU, Run, Verdict, build_harness, build_repo, quarantined, sha
from incanref import pp, Unprintable

ARITH = ["+", "-", "*", "/", "//", "%", "**"]
CMPS = ["==", "!=", "<", "<=", ">", ">="]
# operand kinds: (name, expr, numeric kind, concrete-value-env name)
ENV = {"a": 7, "b": -3, "n": 2, "f": 2.5, "g": -0.5}
OPERANDS = [
    ("intlit", ("int", 7), "int"), ("intlit2", ("int", 2), "int"), ("negintlit", ("neg", ("int", 3)), "int"),
    ("floatlit", ("float", 2.5), "float"), ("floatlit2", ("float", 2.0), "float"),
    ("intvar", ("var", "a"), "int"), ("intvar2", ("var", "n"), "int"), ("negintvar", ("var", "b"), "int"),
    ("floatvar", ("var", "f"), "float"), ("negfloatvar", ("var", "g"), "float"),
]


EXTRA_EXPONENTS = [
    ("negnegparen", ("neg", ("paren", ("neg", ("int", 2))))),
    ("negparenneg3", ("neg", ("paren", ("neg", ("int", 3))))),
    ("parensum", ("paren", ("bin", "+", ("int", 1), ("int", 1)))),
    ("parendiff", ("paren", ("bin", "-", ("int", 3), ("int", 1)))),
    ("parenvar", ("paren", ("var", "n"))),
    ("negparenvar", ("neg", ("paren", ("var", "b")))),
]


def table_type(op, lt, rt, rexpr):
    """Transcription of docs/language/reference/numeric_semantics.md."""
    if op in CMPS:
        return "bool"
    if op == "/":
        return "float"
    if op == "**":
        if lt == "int" and rt == "int" and rexpr[0] == "int":  # non-negative int literal exponent
            return "int"
        return "float"
    return "float" if "float" in (lt, rt) else "int"


def ty_of(e):
    k = e[0]
    if k == "int":
        return "int"
    if k == "float":
        return "float"
    if k == "var":
        return "int" if e[1] in ("a", "b", "n") else "float"
    if k == "neg":
        return ty_of(e[1])
    if k == "paren":
        return ty_of(e[1])
    if k == "bin":
        return table_type(e[1], ty_of(e[2]), ty_of(e[3]), e[3])
    if k == "pow":
        return table_type("**", ty_of(e[1]), ty_of(e[2]), e[2])
    if k == "cmp":
        return "bool"
    raise ValueError(e)


def mk(op, l, r):
    if op == "**":
        return ("pow", l, r, "int" if table_type("**", ty_of(l), ty_of(r), r) == "int" else "float")
    if op in CMPS:
        return ("cmp", op, l, r)
    return ("bin", op, l, r)


def shapes(depth2):
    """All expression shapes: (feature name, expr). Only trees that print without grouping parentheses, plus explicit Paren forms."""
    out = []
    for op in ARITH + CMPS:
        for (ln, le, lt), (rn, re_, rt) in itertools.product(OPERANDS, OPERANDS):
            if op == "**" and ln.startswith("neg") and le[0] == "neg":
                continue  # `-3 ** 2`: unary minus next to ** is not fixed by the docs
            out.append(("d1|%s|%s|%s" % (op, ln, rn), mk(op, le, re_)))
    # exponents that evaluate to a non-negative int but are not literals: the table says float, in every phase
    for (ln, le, lt) in OPERANDS:
        if le[0] == "neg":
            continue
        for rn, re_ in EXTRA_EXPONENTS:
            out.append(("d1|**|%s|%s" % (ln, rn), mk("**", le, re_)))
    if depth2:
        base = [o for o in OPERANDS if o[0] in ("intlit", "floatlit", "intvar", "floatvar", "negintlit", "intlit2")]
        for op1, op2 in itertools.product(ARITH + ["<", "=="], ARITH + ["<", "=="]):
            for (an, ae, _), (bn, be, _), (cn, ce, _) in itertools.product(base, base, base):
                for form in ("left", "right", "pleft", "pright"):
                    try:
                        if form == "left":
                            e = mk(op2, mk(op1, ae, be), ce)
                        elif form == "right":
                            e = mk(op1, ae, mk(op2, be, ce))
                        elif form == "pleft":
                            e = mk(op2, ("paren", mk(op1, ae, be)), ce)
                        else:
                            e = mk(op1, ae, ("paren", mk(op2, be, ce)))
                        if ty_of(e[2] if e[0] != "pow" else e[1]) == "bool" or ty_of(e[3] if e[0] != "pow" else e[2]) == "bool":
                            continue  # arithmetic on bool operands is not part of the table
                        pp(e)
                    except (Unprintable, ValueError):
                        continue
                    out.append(("d2|%s|%s|%s|%s|%s|%s" % (form, op1, op2, an, bn, cn), e))
    return out


ZERO = {"int": ("int", 1), "float": ("float", 1.5), "bool": ("bool", True)}


def uses_vars(e):
    if e[0] == "var":
        return True
    return any(isinstance(x, tuple) and uses_vars(x) for x in e[1:])


def has_paren(e):
    if e[0] == "paren":
        return True
    return any(isinstance(x, tuple) and has_paren(x) for x in e[1:])


def programs_for(feat, e):
    """Binding-position programs: (position, declared type, source, expectation) where expectation in accept|reject."""
    T = ty_of(e)
    src = pp(e)
    params = "a: int, b: int, n: int, f: float, g: float"
    out = []

    def prog(pos, decl_ty):
        if pos == "let":
            return "def h(%s) -> None:\n    x: %s = %s\n" % (params, decl_ty, src)
        if pos == "return":
            return "def h(%s) -> %s:\n    return %s\n" % (params, decl_ty, src)
        if pos == "arg":
            return "def k(p: %s) -> %s:\n    return p\n\n\ndef h(%s) -> None:\n    y = k(%s)\n" % (decl_ty, decl_ty, params, src)
        if pos == "const":
            return "const C: %s = %s\n" % (decl_ty, src)
        raise ValueError(pos)

    # const initialisers may not contain variables - nor parentheses (RFC 008 phase 1 lists Expr::Paren among the disallowed constructs)
    positions = ["let", "return", "arg"] + ([] if uses_vars(e) or has_paren(e) else ["const"])
    for pos in positions:
        out.append((pos, T, prog(pos, T), "accept"))
        if T in ("float", "bool"):
            out.append((pos, "int", prog(pos, "int"), "reject"))
        if T in ("int", "float"):
            out.append((pos, "bool", prog(pos, "bool"), "reject"))
    if T in ("int", "float"):
        # compound assignment: `v op= e` is typed as v = v op e
        for vty in ("int", "float"):
            res = table_type("+", vty, T, e)
            exp = "accept" if res == vty else "reject"
            out.append(("compound", vty, "def h(%s) -> None:\n    mut v: %s = %s\n    v += %s\n" % (params, vty, pp(ZERO[vty]), src), exp))
    return out


def ref_value(e):
    it = incanref.Interp([])
    return it.ev(e, [dict(ENV)])


def value_function(idx, e):
    T = ty_of(e)
    name = "e%d" % idx
    lines = ["def %s(a: int, b: int, n: int, f: float, g: float) -> %s:" % (name, T), "    return %s" % pp(e), ""]
    if T == "bool":
        call = ["    if %s(7, -3, 2, 2.5, -0.5):" % name, "        println(\"T\")", "    else:", "        println(\"F\")"]
    else:
        # `+ 0.5` forces rustc to reveal the run-time kind of an accepted float binding
        call = ["    println(%s(7, -3, 2, 2.5, -0.5)%s)" % (name, " + 0.5" if T == "float" else "")]
    return lines, call


def build_and_compare(items, run, nproc=8, batch=24):
    """items: [(feat, expr)] accepted by the checker. Bisects failing batches to single expressions."""
    work = [items[i:i + batch] for i in range(0, len(items), batch)]
    while work:
        jobs = []
        for grp in work:
            decl, calls = [], []
            for k, (feat, e) in enumerate(grp):
                d, c = value_function(k, e)
                decl += d + [""]
                calls += ["    println(\"@@ %d\")" % k] + c
            text = "\n".join(decl) + "\ndef main() -> None:\n" + "\n".join(calls) + "\n"
            jobs.append({"name": "c07p", "files": {"c07p.incn": text}, "entry": "c07p.incn", "check": True, "run": True})
        res = progs.run_jobs(jobs, nproc)
        nxt = []
        for grp, job, r in zip(work, jobs, res):
            text = job["files"]["c07p.incn"]
            ck, b, rn = r["check"], r["build"], r["run"]
            failed_build = ck is None or ck.get("rc") != 0 or b is None or b.get("rc") != 0
            if failed_build and len(grp) > 1:
                h = len(grp) // 2
                nxt += [grp[:h], grp[h:]]
                continue
            if failed_build:
                feat, e = grp[0]
                if ck is None or ck.get("rc") != 0:
                    run.record(Verdict("violated", "checker accepts `x: T = e` in-process but `incan --check` rejects the value program"), {"feat": feat, "src": text}, key=("val", feat))
                elif b.get("timeout"):
                    run.record(Verdict("inconclusive", "build watchdog"))
                else:
                    import casecheck
                    sig = "accepted expression does not build [%s]: %s" % (cell_of(feat), casecheck.first_rustc_error(b.get("stderr", "") + b.get("stdout", "")))
                    run.record(Verdict("violated", sig, {"stderr": b.get("stderr", "")[-600:]}), {"kind": "value", "feat": feat, "expr": e, "src": text}, key=("val", feat))
                continue
            if rn is None or rn.get("timeout") or rn.get("missing_binary"):
                run.record(Verdict("inconclusive", "run watchdog"), count=len(grp))
                continue
            import casecheck
            seg = casecheck.split_segments(rn["stdout"])
            stopped = False
            for k, (feat, e) in enumerate(grp):
                T = ty_of(e)
                if str(k) not in seg:
                    if len(grp) > 1:
                        nxt.append([grp[k]])
                    else:
                        run.record(Verdict("violated", "value program stopped before printing [%s] (exit %s, %r)" % (cell_of(feat), rn["rc"], rn["stderr"].strip()[-100:])),
                                   {"kind": "value", "feat": feat, "expr": e, "src": text}, key=("val", feat))
                    continue
                try:
                    v = ref_value(e)
                except incanref.IncanPanic as p:
                    exp_panic = p
                    v = None
                except incanref.OutOfDomain:
                    run.record(Verdict("inconclusive", "reference left its domain"))
                    continue
                else:
                    exp_panic = None
                got = seg[str(k)]
                if exp_panic is not None:
                    last = k == len(grp) - 1
                    if last and rn["rc"] == 101 and exp_panic.text() in rn["stderr"]:
                        run.record(Verdict("held"), key=("val", feat))
                    elif len(grp) > 1:
                        nxt.append([grp[k]])
                        # everything after a panicking expression must be re-run as well
                        for j in range(k + 1, len(grp)):
                            nxt.append([grp[j]])
                        stopped = True
                    else:
                        run.record(Verdict("violated", "expected %s for [%s], got exit %s" % (exp_panic.text(), cell_of(feat), rn["rc"])),
                                   {"kind": "value", "feat": feat, "expr": e, "src": text}, key=("val", feat))
                    if stopped:
                        break
                    continue
                if T == "bool":
                    exp_lines = ["T" if v else "F"]
                elif T == "float":
                    exp_lines = [("f", float(v) + 0.5)]
                else:
                    exp_lines = [("i", str(v))]
                    if isinstance(v, float):
                        exp_lines = None
                if exp_lines is None:
                    run.record(Verdict("inconclusive", "oracle kind mismatch"))
                    continue
                sig = incanref.compare_output(exp_lines, None, "\n".join(got), "", 0)
                if sig is None:
                    run.record(Verdict("held"), key=("val", feat))
                else:
                    run.record(Verdict("violated", "run-time value of [%s]: %s" % (cell_of(feat), sig)), {"kind": "value", "feat": feat, "expr": e, "src": text}, key=("val", feat))
        work = nxt


def cell_of(feat):
    return feat


def eval_case(case):
    if case.get("kind") == "verdict":
        r = hc.run_requests([{"op": "check", "src": case["src"]}], nproc=1)[0]
        ok = bool(r.get("ok"))
        if r.get("stage") in ("lex", "parse", "panic"):
            return Verdict("violated", "%s: checker stage %s on a well-formed program" % (case["feat"], r.get("stage")))
        if case["expect"] == "accept" and not ok:
            return Verdict("violated", sig_verdict(case["feat"], case["pos"], case["decl"], "rejected but the table says %s" % case["decl"]))
        if case["expect"] == "reject" and ok:
            return Verdict("violated", sig_verdict(case["feat"], case["pos"], case["decl"], "accepted although the table type differs"))
        return Verdict("held")
    # value case: single expression build + run
    tmp = Run("C07", "quick", 0)
    tmp.min_held = 0
    build_and_compare([(case["feat"], _detuple(case["expr"]))], tmp, nproc=1, batch=1)
    if tmp.violations:
        return Verdict("violated", tmp.violations[0]["signature"])
    if tmp.held:
        return Verdict("held")
    return Verdict("inconclusive", "value case not decided")


def _detuple(x):
    if isinstance(x, list):
        return tuple(_detuple(y) for y in x)
    return x


def sig_verdict(feat, pos, decl, what):
    return "%s @%s as %s: %s" % (feat, pos, decl, what)


def main(tier, seed, replay=None):
    run = Run("C07", tier, seed)
    quick = tier == "quick"
    run.rule = ("exhaustive enumeration of operator x operand-kind x exponent-kind shapes (depth 1; thorough: every depth-2 nesting that prints "
                "without regrouping + explicit parenthesised forms) x binding positions {annotated let, return, argument, const, compound "
                "assignment}: (a) `T = e` accepted, (b) `int = e`/`bool = e` rejected when the table type differs, via the real TypeChecker "
                "in-process; (c) accepted shapes build with rustc and (d) print the value/kind incanref computes; one evaluation = one "
                "(shape, position, declared type) verdict or one built shape; distinct = that triple / shape")
    run.assumptions = ["the table in docs/language/reference/numeric_semantics.md is the oracle (transcribed in table_type)",
                       "whether `x: float = <int expr>` is accepted is not fixed by the property and is not checked",
                       "unary minus directly under ** is excluded (not fixed by the docs)"]
    build_harness()
    if replay:
        build_repo()
        run.record(eval_case(replay["case"]), replay["case"], key="replay")
        return run.finish()
    build_repo()
    run.run_known(eval_case)
    avoid = quarantined("C07")
    sh = shapes(depth2=not quick)
    if not quick:
        rng = random.Random(seed)
        d1 = [s for s in sh if s[0].startswith("d1|")]
        d2 = [s for s in sh if s[0].startswith("d2|")]
        rng.shuffle(d2)
        sh = d1 + d2[:30000]
    run.extra["shapes"] = len(sh)
    run.extra["exhaustive"] = True
    run.extra["exhaustive_bound"] = "all depth-1 operator x operand-kind shapes" + ("" if quick else " + sampled 30000 of the depth-2 shapes for verdicts")
    reqs, meta = [], []
    for feat, e in sh:
        for pos, decl, src, expect in programs_for(feat, e):
            reqs.append({"op": "check", "src": src})
            meta.append((feat, e, pos, decl, src, expect))
    res = hc.run_requests(reqs, nproc=NCPU, shard=400)
    accepted = {}
    for (feat, e, pos, decl, src, expect), r in zip(meta, res):
        case = {"kind": "verdict", "feat": feat, "pos": pos, "decl": decl, "src": src, "expect": expect}
        key = (feat, pos, decl)
        cellq = "%s@%s:%s" % (feat, pos, expect)
        if cellq in avoid or feat in avoid:
            continue
        if "crash" in r or "timeout" in r or r.get("stage") in ("lex", "parse", "panic"):
            run.record(Verdict("violated", "%s: checker %s on a well-formed program" % (feat, r.get("stage", "crash"))), case, key=key)
            continue
        ok = bool(r.get("ok"))
        if expect == "accept" and not ok:
            run.record(Verdict("violated", sig_verdict(feat, pos, decl, "rejected but the table says %s" % decl), {"errors": r.get("errors")}), case, key=key)
        elif expect == "reject" and ok:
            run.record(Verdict("violated", sig_verdict(feat, pos, decl, "accepted although the table type differs")), case, key=key)
        else:
            run.record(Verdict("held"), key=key)
            if expect == "accept" and pos == "return":
                accepted[feat] = e
    # (c)/(d): build and run accepted shapes
    items = [(f, e) for f, e in accepted.items() if ("build:" + f) not in avoid and "paren" not in str(e)]
    if not quick:
        d2 = [x for x in items if x[0].startswith("d2|")]
        random.Random(seed + 1).shuffle(d2)
        items = [x for x in items if x[0].startswith("d1|")] + d2[:2500]
    run.extra["built_shapes"] = len(items)
    build_and_compare(items, run)
    for feat, e in sh[:2] + sh[-2:]:
        run.sample({"shape": feat, "expr": pp(e), "table_type": ty_of(e)})
    run.min_held = 1000
    return run.finish()
