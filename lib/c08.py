import fmtchecks


def main(tier, seed, replay=None):
    return fmtchecks.main("C08", tier, seed, replay)
