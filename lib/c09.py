import fmtchecks


def main(tier, seed, replay=None):
    return fmtchecks.main("C09", tier, seed, replay)
