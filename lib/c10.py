"""C10 - layout edits and comments never change the parsed tree (metamorphic, span-erased AST equality)."""
import random

import corpus
import gsyn
import hc
from common import NCPU, Run, Verdict, build_harness, quarantined, sha

STR_CLASSES = ("str", "fstr", "bytes")


class Layout:
    """Token-derived facts about one source text (all positions are byte offsets; text handled as bytes)."""

    def __init__(self, text, tokens):
        self.b = text.encode("utf-8")
        self.toks = tokens
        self.str_spans = [(s, e) for (c, s, e) in tokens if c in STR_CLASSES]
        self.multiline_str = any(b"\n" in self.b[s:e] for s, e in self.str_spans)
        # line starts
        self.line_starts = [0]
        for i, ch in enumerate(self.b):
            if ch == 10:
                self.line_starts.append(i + 1)
        if self.line_starts[-1] == len(self.b):
            self.line_starts.pop()
        # bracket depth at each token
        self.depth_at = []
        d = 0
        for (c, s, e) in tokens:
            if c == "close":
                d = max(0, d - 1)
            self.depth_at.append(d)
            if c == "open":
                d += 1

    def in_string(self, pos):
        """pos strictly inside a string-like token (start < pos < end) or at a position whose line break would split it."""
        for s, e in self.str_spans:
            if s < pos < e:
                return True
        return False

    def line_end(self, ls):
        i = self.b.find(b"\n", ls)
        return len(self.b) if i < 0 else i

    def bracket_depth(self, pos):
        d = 0
        for (c, s, e) in self.toks:
            if s >= pos:
                break
            if c == "open":
                d += 1
            elif c == "close":
                d = max(0, d - 1)
        return d

    def indent_of(self, ls):
        i = ls
        while i < len(self.b) and self.b[i] in (32, 9):
            i += 1
        return self.b[ls:i]


def edits_for(text, tokens, rng, per_kind):
    """Yield (kind, state_class, variant_text)."""
    L = Layout(text, tokens)
    b = L.b
    out = []

    def emit(kind, state, nb):
        try:
            out.append((kind, state, nb.decode("utf-8")))
        except UnicodeDecodeError:
            pass

    def pick(seq):
        seq = list(seq)
        if len(seq) <= per_kind:
            return seq
        return rng.sample(seq, per_kind)

    safe_lines = [ls for ls in L.line_starts if not L.in_string(ls)]
    # next non-blank line's indentation gives the "current" block indentation for an inserted comment
    for ls in pick(safe_lines + [len(b)]):
        depth = L.bracket_depth(ls)
        cur = L.indent_of(ls) if ls < len(b) else b""
        for name, ind in (("c0", b""), ("ccur", cur), ("cdeep", cur + b"        "), ("cshallow", cur[:max(0, len(cur) - 4)])):
            state = ("br%d" % min(depth, 2), "eof" if ls >= len(b) else "linestart", name)
            pre = b if (ls < len(b) or b.endswith(b"\n") or not b) else b + b"\n"
            at = ls if ls < len(b) else len(pre)
            emit("comment_line", state, pre[:at] + ind + b"# note: x = [1, (\n" + pre[at:])
        k = rng.randint(1, 3)
        blank = rng.choice([b"\n", b"   \n", b"\t\n", b"        \n"]) * k
        pre = b if (ls < len(b) or b.endswith(b"\n") or not b) else b + b"\n"
        at = ls if ls < len(b) else len(pre)
        emit("blank_lines", ("br%d" % min(depth, 2), "eof" if ls >= len(b) else "linestart", k), pre[:at] + blank + pre[at:])
    # trailing comment / trailing spaces at line ends
    ends = []
    for ls in L.line_starts:
        le = L.line_end(ls)
        if not L.in_string(le) and not (le > ls and L.in_string(le - 1) and False):
            ends.append(le)
    for le in pick(ends):
        depth = L.bracket_depth(le)
        blankline = b[:le].endswith(b"\n") or le == 0
        st = ("br%d" % min(depth, 2), "blank" if blankline else "code")
        emit("trailing_comment", st, b[:le] + b"  # trailing ) ] :" + b[le:])
        emit("trailing_spaces", st, b[:le] + rng.choice([b" ", b"   ", b" \t"]) + b[le:])
    # final newline add / remove
    if b.endswith(b"\n"):
        stripped = b.rstrip(b"\n")
        if not L.in_string(len(stripped)):
            emit("final_newline_removed", ("eof",), stripped)
        emit("final_newlines_added", ("eof",), b + b"\n\n")
    else:
        emit("final_newline_added", ("eof",), b + b"\n")
    # the end of the file without a final newline: a whitespace-only last line of any width, or a comment, after the last statement
    stripped = b.rstrip(b"\n")
    if stripped and not L.in_string(len(stripped)):
        for ws in (b" ", b"  ", b"    ", b"      ", b"        ", b"\t", b"            "):
            emit("eof_ws_line_no_newline", ("eof", "w%d" % len(ws.expandtabs(4))), stripped + b"\n" + ws)
        emit("eof_comment_no_newline", ("eof", "c0"), stripped + b"\n# end")
        emit("eof_comment_no_newline", ("eof", "cdeep"), stripped + b"\n        # end")
        emit("eof_ws_then_blank", ("eof",), stripped + b"\n  \n    \n")
        if not L.multiline_str and b"\r" not in b:
            emit("eof_crlf_ws_line", ("eof",), stripped.replace(b"\n", b"\r\n") + b"\r\n  ")
    # CRLF (whole file), only without multi-line strings
    if not L.multiline_str and b"\r" not in b:
        emit("crlf", ("file",), b.replace(b"\n", b"\r\n"))
    # line breaks inside brackets
    cands = []
    for idx, (c, s, e) in enumerate(L.toks):
        d = L.depth_at[idx]
        if c == "open":
            cands.append((e, "after_open", d + 1))
        elif c == "comma" and d > 0:
            cands.append((e, "after_comma", d))
        elif c == "close" and d >= 0 and L.bracket_depth(s) > 0:
            cands.append((s, "before_close", L.bracket_depth(s)))
    for pos, what, d in pick(cands):
        if L.in_string(pos):
            continue
        ind = rng.choice([b"", b"  ", b"    ", b"\t", b"             "])
        extra = rng.choice([b"", b"", b"  # c ]"])
        emit("bracket_break", (what, "d%d" % min(d, 3), "cmt" if extra else "plain"), b[:pos] + extra + b"\n" + ind + b[pos:])
    # consistent re-indentation (4 -> 2, 8, tab), only when every code line is indented by a multiple of 4 spaces
    if not L.multiline_str:
        ok = True
        lines = b.split(b"\n")
        depth_line = []
        off = 0
        for ln in lines:
            depth_line.append(L.bracket_depth(off))
            off += len(ln) + 1
        for ln, bd in zip(lines, depth_line):
            lead = len(ln) - len(ln.lstrip(b" "))
            if ln.strip() and bd == 0 and (lead % 4 != 0 or ln[:lead + 1].endswith(b"\t")):
                ok = False
        if ok:
            for name, unit in (("reindent2", b"  "), ("reindent8", b"        "), ("reindent_tab", b"\t")):
                nl = []
                for ln, bd in zip(lines, depth_line):
                    lead = len(ln) - len(ln.lstrip(b" "))
                    if ln.strip() and bd == 0:
                        nl.append(unit * (lead // 4) + ln[lead:])
                    else:
                        nl.append(ln)
                emit(name, ("file",), b"\n".join(nl))
    return out


def eval_case(case):
    r = hc.run_requests([{"op": "layout", "src": case["src"], "variants": [case["variant"]]}], nproc=1)[0]
    if "crash" in r or "timeout" in r:
        return Verdict("violated", "parser crashed/stalled on a layout variant")
    if not r.get("parsed"):
        return Verdict("inconclusive", "base text does not parse")
    res = r["results"][0]
    if res == "same":
        return Verdict("held")
    return Verdict("violated", "%s: %s" % (case.get("kind", "edit"), _sig(res)))


def _sig(res):
    import re
    return re.sub(r"@\d+", "@N", re.sub(r"line \d+", "line N", res))[:110]


def main(tier, seed, replay=None):
    run = Run("C10", tier, seed)
    run.rule = ("one evaluation = one (valid file, layout edit kind, position) pair: the span-erased AST of the edited text must equal the "
                "original's; edits = comment lines at 4 indentations, trailing comments/spaces, blank or whitespace-only lines, final newline "
                "add/remove, CRLF, line breaks after ( [ { , and before closers (with indentation/comment), re-indent 4->2/8/tab; positions "
                "are computed from the original token stream and never fall inside a string/f-string/bytes token; distinct = (edit kind, "
                "lexer state at the position: bracket depth, line start/eof/blank line) x file shape hash")
    run.assumptions = ["files with a multi-line string literal are excluded from CRLF and re-indent edits (their contents legitimately change)",
                       "re-indent applies only to files whose block indentation is a multiple of 4 spaces"]
    build_harness()
    if replay:
        run.record(eval_case(replay["case"]), replay["case"], key="replay")
        return run.finish()
    run.run_known(eval_case)
    avoid = quarantined("C10")
    quick = tier == "quick"
    nfiles = 500 if quick else 6000
    per_kind = 10 if quick else 60
    rng = random.Random(seed * 13 + 5)
    texts = []
    for i in range(nfiles):
        t, f = gsyn.gen_file(random.Random(rng.getrandbits(48)), avoid, ndecl=rng.randint(1, 3))
        texts.append(t)
    ctexts = [t for _, t in corpus.corpus_texts()]
    if quick:
        ctexts = rng.sample(ctexts, min(150, len(ctexts)))
    texts += ctexts
    tok = hc.run_requests([{"op": "tokens", "src": t} for t in texts], nproc=NCPU, shard=200)
    reqs, meta = [], []
    for t, r in zip(texts, tok):
        if not r.get("ok"):
            continue
        toks = [tuple(x) for x in r["tokens"]]
        eds = edits_for(t, toks, random.Random(rng.getrandbits(48)), per_kind)
        if not eds:
            continue
        reqs.append({"op": "layout", "src": t, "variants": [e[2] for e in eds]})
        meta.append((t, eds))
    res = hc.run_requests(reqs, nproc=NCPU, shard=40, timeout=60)
    nfiles_used = 0
    for (t, eds), r in zip(meta, res):
        if "crash" in r or "timeout" in r:
            run.record(Verdict("violated", "parser crashed/stalled on a layout variant of a valid file"), {"src": t, "variant": "<one of %d>" % len(eds)})
            continue
        if not r.get("parsed"):
            run.record(Verdict("inconclusive", "base text does not parse"))
            continue
        nfiles_used += 1
        fh = sha(t)[:8]
        for (kind, state, var), out in zip(eds, r["results"]):
            run.feature(kind)
            if out == "same":
                run.record(Verdict("held"), key=(kind, state, fh))
            else:
                run.record(Verdict("violated", "%s: %s" % (kind, _sig(out))), {"src": t, "variant": var, "kind": kind, "state": list(state)}, key=(kind, state, fh))
        if nfiles_used % 97 == 1 and eds:
            run.sample({"edit": eds[0][0], "state": list(eds[0][1]), "variant_head": eds[0][2][:160]}, cap=4)
    run.extra["files"] = nfiles_used
    run.extra["distinct_edit_states"] = len(set((k[0], k[1]) for k in run.distinct))
    run.min_held = 2000
    return run.finish()
