"""C11 - the front end is total and its diagnostics are well-formed (invariant oracles around every stage)."""
import os
import random
import re
import shutil
import subprocess
import tempfile

import corpus
import gsyn
import hc
from common import BUILD, INCAN, NCPU, Run, Verdict, base_env, build_harness, build_repo, sha

WEIRD = ["\x00", "\ufeff", "\u2028", "\u2029", "\x0b", "\x0c", "\r", "\t", " ", "\n", "\\", "'", '"', "#", "{", "}", "(", ")", "[", "]",
         ":", ",", ".", "=", "é", "€", "𝄞", "́", "a", "Z", "_", "0", "9", "@", "?", "!", "~", "`", "$", "%", "^", "&", "*", "-", "+", "/",
         "<", ">", "|", ";", "\x7f", "\u00a0", "\u200b", "\U0010ffff", "ß"]
VOCAB = ("if else elif match case while for break continue return yield pass def fn async await class model trait enum type newtype "
         "with extends pub import from as rust python super crate const let mut self true True false False None and or not in is "
         "+ - * / // % ** == != < > <= >= = += -= *= /= //= %= -> => .. ..= ... , : ? @ . :: ( ) [ ] { } "
         "x y Foo int str List Option 0 1 42 3.14 1e10 \"s\" 's' f\"{x}\" f\"{x + }\" b\"b\" \"\"\"d\"\"\" # _").split(" ")


def g_random(r):
    n = r.randint(0, 60)
    return "".join(r.choice(WEIRD) for _ in range(n))


def g_soup(r):
    out = []
    indent = 0
    for _ in range(r.randint(1, 40)):
        k = r.random()
        if k < 0.2:
            indent = max(0, indent + r.choice([-4, 0, 4, 4, 2, 1, -8]))
            out.append("\n" + " " * indent)
        else:
            out.append(r.choice(VOCAB) + r.choice([" ", " ", ""]))
    return "".join(out) + r.choice(["", "\n"])


def mutate(r, text):
    """One syntactic accident applied to a valid program."""
    b = text
    k = r.random()
    lines = b.split("\n")
    if k < 0.15 and b:
        return b[:r.randrange(len(b))]
    if k < 0.25 and len(lines) > 1:
        i = r.randrange(len(lines))
        del lines[i]
        return "\n".join(lines)
    if k < 0.33 and len(lines) > 1:
        i = r.randrange(len(lines))
        lines.insert(i, lines[i])
        return "\n".join(lines)
    if k < 0.41 and len(lines) > 2:
        i, j = r.randrange(len(lines)), r.randrange(len(lines))
        lines[i], lines[j] = lines[j], lines[i]
        return "\n".join(lines)
    if k < 0.52 and len(lines) > 1:
        i = r.randrange(len(lines))
        lines[i] = r.choice([" ", "  ", "   ", "\t", "      ", ""]) + lines[i].lstrip(" ") if r.random() < 0.5 else r.choice([" ", "   "]) + lines[i]
        return "\n".join(lines)
    if k < 0.64:
        pos = [m.start() for m in re.finditer(r"[()\[\]{}]", b)]
        if pos:
            p = r.choice(pos)
            return b[:p] + r.choice(["", "(", ")", "]", "}", "[[", "{"]) + b[p + 1:]
    if k < 0.74:
        pos = [m.start() for m in re.finditer(r"[\"']", b)]
        if pos:
            p = r.choice(pos)
            return b[:p] + r.choice(["", '"""', "'", '\\']) + b[p + 1:]
    if k < 0.82 and b:
        p = r.randrange(len(b))
        return b[:p] + r.choice(WEIRD) + b[p:]
    if k < 0.9:
        toks = re.findall(r"\w+|\s+|[^\w\s]", b)
        if len(toks) > 2:
            i = r.randrange(len(toks))
            op = r.random()
            if op < 0.4:
                del toks[i]
            elif op < 0.7:
                toks.insert(i, toks[i])
            else:
                toks[i] = r.choice(VOCAB)
            return "".join(toks)
    # ill-typed sub-expression inside an f-string, after a multi-byte prefix (f-string fragments are re-lexed)
    pre = r.choice(["# é€𝄞 comment\n", "# 𝄞𝄞𝄞𝄞𝄞𝄞𝄞𝄞𝄞𝄞\n# é\n", "\"\"\"𝄞 doc é\"\"\"\n", ""])
    body = r.choice(["{aa + unknown_b}", "{1 + \"s\"}", "{xs[}", "{f(}", "{a.b.c(1, 2)}", "{}", "{ }", "{'q'}", "{a:>10}", "{{a}", "{a}}"])
    return pre + b + "\ndef zz_f() -> None:\n    println(f\"𝄞 " + body + " tail\")\n"


def g_nest(r):
    d = r.choice([5, 20, 60, 100, 150])
    k = r.random()
    if k < 0.2:
        return "x = " + "(" * d + "1" + ")" * d + "\n"
    if k < 0.35:
        return "def f() -> int:\n    return " + "[" * d + "1" + "]" * d + "\n"
    if k < 0.5:
        return "def f() -> int:\n    return " + "(" * d + "1" + ")" * (d - r.randint(0, 3)) + "\n"
    if k < 0.65:
        return "def f() -> int:\n    return " + "-" * d + "1\n"
    if k < 0.8:
        s = "def f() -> None:\n"
        for i in range(1, d // 2):
            s += "    " * i + "if x:\n"
        s += "    " * (d // 2) + "pass\n"
        return s
    if k < 0.9:
        return "def f() -> int:\n    return " + "not " * d + "x\n"
    return "def f() -> int:\n    return " + "a.b" * d + "(" * (d // 3) + ")" * (d // 3) + "\n"


INT_EDGE = ["0", "1", "9223372036854775807", "9223372036854775806", "9223372036854775808", "4611686018427387904", "2147483648", "4294967296",
            "18446744073709551615", "99999999999999999999", "9007199254740993", "63", "64", "65"]
FLOAT_EDGE = ["1e999", "1e-999", "1e308", "1.7976931348623157e308", "5e-324", "0.0", "1e400", "9223372036854775807.0", "1e19", "0.1"]
INT_OPS = ["+", "-", "*", "//", "%", "**", "/"]


def g_numeric(r):
    """Programs built around boundary numeric literals in every position that evaluates or re-spells them at compile time:
    const initialisers (chains, negation), literals in expressions, patterns, indices, slices, ranges."""
    L = lambda: r.choice(INT_EDGE)
    F = lambda: r.choice(FLOAT_EDGE)
    N = lambda: r.choice([L(), "-" + L(), F(), "-" + F(), "(-%s - 1)" % L(), "(-9223372036854775807 - 1)", "9223372036854775807"])
    k = r.random()
    if k < 0.35:
        n = r.randint(1, 4)
        lines = ["const A0: %s = %s" % (r.choice(["int", "int", "float"]), r.choice([N(), N(), "-9223372036854775807 - 1", "9223372036854775807"]))]
        for i in range(1, n + 1):
            prev = "A%d" % r.randrange(i)
            form = r.choice(["-%s", "%s {op} {n}", "{n} {op} %s", "-(-%s)", "%s {op} %s", "not (%s > {n})", "%s == {n}"])
            e = form.replace("%s", prev).format(op=r.choice(INT_OPS), n=N())
            ty = "bool" if ("not" in form or "==" in form) else r.choice(["int", "float"])
            lines.append("const A%d: %s = %s" % (i, ty, e))
        return "\n".join(lines) + "\n\n\ndef main() -> None:\n    println(A0)\n"
    if k < 0.6:
        e = "%s %s %s" % (N(), r.choice(INT_OPS + ["<", "==", ">="]), N())
        if r.random() < 0.4:
            e = "%s %s %s" % (e, r.choice(INT_OPS), N())
        return "def main() -> None:\n    x = %s\n    println(x)\n" % e
    if k < 0.7:
        return "def main() -> None:\n    v = %s\n    match v:\n        %s => println(1)\n        %s => println(2)\n        _ => println(0)\n" % (N(), N(), N())
    if k < 0.85:
        return 'def main() -> None:\n    s = "abc"\n    xs = [1, 2, 3]\n    println(s[%s:%s:%s])\n    println(xs[%s])\n    for i in range(%s, %s, %s):\n        println(i)\n' % (N(), N(), N(), N(), N(), N(), N())
    return "def f(a: int = %s, b: float = %s) -> float:\n    return a * b\n\n\ndef main() -> None:\n    println(f(%s, %s))\n" % (N(), N(), N(), N())


MB = ["é", "€", "😀", "𝄞", "ü", "\u200b", "中"]
BAD_TYPES = ["Result[int]", "Result", "Result[int, str, bool]", "Option", "Option[int, str]", "List", "List[int, str]", "Dict[str]", "Dict", "Set",
             "Tuple", "Tuple[]", "Result[]", "Option[]", "int[str]", "str[int]", "Result[Result]", "Option[Option[]]", "Result[int, str]", "Option[int]",
             "List[Result[int]]", "Dict[str, Option]", "(int)", "()", "(int, )", "Result[(), ()]", "FrozenList", "FrozenDict[str]", "Self", "None"]
CTORS = ["Ok(1)", 'Err("e")', "Some(1)", "None", "[1]", "{}", "(1, 2)", "1", "Ok()", "Err()", "Some()", "Ok(1, 2)", "Some(None)", "Ok(Ok(1))"]
PATS = ["Ok(v)", "Err(e)", "Some(v)", "None", "Ok()", "Err()", "Ok(a, b)", "Err(a, b)", "Some(a, b)", "Ok(Ok(v))", "Some(Some(v))", "_", "v", "Ok(_)", "Err(_)",
        "(a, b)", "[a, b]", "1", '"s"', "Ok", "Err", "Some"]


def g_escape(r):
    """String-like literals whose escape sequences are followed by multi-byte characters, braces, quotes or the end of the literal:
    every diagnostic the lexer locates inside them must still fall on character boundaries."""
    pre = r.choice(["", "", "b", "b", "b", "f", "r", "rb", "br", "fr", "B", "F"])
    qt = r.choice(['"', '"', "'", '"""'])
    body = ""
    for _ in range(r.choice([1, 1, 2, 3, 4])):
        k = r.random()
        if k < 0.6:
            esc = r.choice(list("xxxxuuUN0123456789abfnrtv{}'\\\"") + ["u{", "x{", "N{"])
            body += "\\" + esc
            if esc[0] in "xuUN01234567" and r.random() < 0.5:
                # the characters an escape wants to consume as digits are wide ones
                body += "".join(r.choice(["€", "😀", "𝄞", "中", "é", "\u200b"]) for _ in range(r.randint(1, 3))) + r.choice(["", "1", "f", "g"])
            else:
                body += "".join(r.choice(MB + list("0123456789abcdefABCDEFgz{}") + MB) for _ in range(r.randint(0, 4)))
        elif k < 0.8:
            body += r.choice(MB) * r.randint(1, 3)
        else:
            body += r.choice(["{", "}", "{{", "}}", "{x}", "{x!r}", "{x:>5}", "{" + r.choice(MB) + "}", " ", "a"])
    close = qt if r.random() < 0.85 else ""
    lit = pre + qt + body + close
    form = r.choice(["x = %s\n", "def f() -> bytes:\n    return %s\n", "println(%s)\n", "const C: str = %s\n", "match s:\n    %s => 1\n", "x = [%s, 1]\n"])
    return form % lit


def g_types(r):
    """Generic types applied to the wrong number of arguments (or none), met by constructor patterns, `?`, iteration and indexing."""
    T, c = r.choice(BAD_TYPES), r.choice(CTORS)
    arms = r.sample(PATS, r.randint(1, 3))
    style = r.random() < 0.5
    m = "".join(("        case %s:\n            println(1)\n" if style else "        %s => println(1)\n") % a for a in arms)
    k = r.random()
    if k < 0.45:
        return "def f() -> %s:\n    return %s\n\n\ndef main() -> None:\n    match f():\n%s" % (T, c, m)
    if k < 0.6:
        return "def main() -> None:\n    x: %s = %s\n    match x:\n%s" % (T, c, m)
    if k < 0.75:
        return "def f() -> %s:\n    return %s\n\n\ndef g() -> %s:\n    v = f()?\n    return v\n" % (T, c, r.choice(BAD_TYPES))
    if k < 0.9:
        return "def f(p: %s) -> None:\n    for a in p:\n        println(a)\n    println(p[0])\n    println(p.unwrap())\n    y = [q for q in p]\n" % T
    return "model M:\n    a: %s\n    b: %s = %s\n\n\ndef main() -> None:\n    m = M(a=%s)\n    match m.a:\n%s" % (T, r.choice(BAD_TYPES), c, r.choice(CTORS), m)


def verdict_front(r):
    if "crash" in r:
        return Verdict("violated", "front end aborted the process (exit/signal %s)" % r["crash"])
    if "timeout" in r:
        return Verdict("inconclusive", "watchdog: no reply within the per-input budget")
    if r.get("error"):
        return Verdict("inconclusive", "harness: %s" % r["error"])
    if r["problems"]:
        p = r["problems"][0]
        p = re.sub(r"\d+", "N", p)
        p = re.sub(r"\(.*\)$", "(...)", p)
        return Verdict("violated", p[:140], {"problems": r["problems"][:6], "stages": r["stages"]})
    return Verdict("held")


def eval_case(case):
    if case.get("kind") == "cli":
        return cli_case(case["src"])
    r = hc.run_requests([{"op": "front", "src": case["src"]}], nproc=1, timeout=90)[0]
    return verdict_front(r)


def cli_case(src):
    d = tempfile.mkdtemp(prefix="c11cli_", dir=os.path.join(BUILD, "scratch"))
    try:
        with open(os.path.join(d, "p.incn"), "w") as f:
            f.write(src)
        env = base_env()
        for args in (["--lex", "p.incn"], ["--parse", "p.incn"], ["--check", "p.incn"], ["--emit-rust", "p.incn"], ["fmt", "--check", "p.incn"]):
            for fancy in (False, True):
                e = dict(env)
                if fancy:
                    e["INCAN_FANCY_ERRORS"] = "1"
                try:
                    p = subprocess.run([INCAN] + args, cwd=d, env=e, stdout=subprocess.DEVNULL, stderr=subprocess.PIPE, text=True, timeout=60)
                except subprocess.TimeoutExpired:
                    return Verdict("inconclusive", "incan %s: watchdog" % args[0])
                if p.returncode not in (0, 1):
                    return Verdict("violated", "incan %s%s exits %d (expected 0 or 1)" % (" ".join(args[:-1]), " [fancy]" if fancy else "", p.returncode),
                                   {"stderr": p.stderr[-300:]})
        return Verdict("held")
    finally:
        shutil.rmtree(d, ignore_errors=True)


def main(tier, seed, replay=None):
    run = Run("C11", tier, seed)
    run.rule = ("one evaluation = one UTF-8 input pushed through lex, parse, check, format_source and IrCodegen::try_generate under "
                "catch_unwind on an 8 MiB stack, with every returned diagnostic checked (non-empty list, start<=end<=len, char boundaries) and "
                "rendered by format_error, render_miette and compile_error_to_diagnostic; generators: random characters, token soup, "
                "single accidents applied to valid programs, nesting to depth 150, boundary numeric literals in const/expression/pattern/index/range positions, escape sequences next to multi-byte characters in every string-like literal, generic types of the wrong arity met by patterns/`?`/iteration; distinct = (generator, stage outcome vector, diagnostic "
                "count bucket, input hash); non-trivial = input >= 8 bytes")
    run.assumptions = ["nesting depth is capped at 150 (the property's 'fixed generous depth'); stages run on an 8 MiB stack like the CLI main thread",
                       "a per-input watchdog firing is inconclusive, not a violation"]
    build_harness()
    os.makedirs(os.path.join(BUILD, "scratch"), exist_ok=True)
    if replay:
        run.record(eval_case(replay["case"]), replay["case"], key="replay")
        return run.finish()
    run.run_known(eval_case)
    quick = tier == "quick"
    n = 40000 if quick else 1200000
    rng = random.Random(seed * 17 + 3)
    valid = []
    for i in range(300 if quick else 3000):
        t, _ = gsyn.gen_file(random.Random(rng.getrandbits(48)), (), ndecl=rng.randint(1, 3))
        valid.append(t)
    valid += [t for _, t in corpus.corpus_texts() if len(t) < 6000]
    inputs = []
    for i in range(n):
        k = rng.random()
        r = random.Random(rng.getrandbits(48))
        if k < 0.04:
            inputs.append(("numeric", g_numeric(r)))
        elif k < 0.09:
            inputs.append(("escape", g_escape(r)))
        elif k < 0.12:
            inputs.append(("types", g_types(r)))
        elif k < 0.2:
            inputs.append(("random", g_random(r)))
        elif k < 0.32:
            inputs.append(("soup", g_soup(r)))
        elif k < 0.97:
            inputs.append(("mutant", mutate(r, r.choice(valid))))
        else:
            inputs.append(("nest", g_nest(r)))
    # truncation at every char boundary of a few small valid files
    for t in rng.sample(valid, 6 if quick else 60):
        t = t[:700]
        for i in range(len(t)):
            inputs.append(("truncate", t[:i]))
    res = hc.run_requests([{"op": "front", "src": s} for _, s in inputs], nproc=NCPU, shard=500, timeout=60)
    for (gen, s), r in zip(inputs, res):
        v = verdict_front(r)
        run.feature("gen." + gen)
        stages = r.get("stages", {}) if isinstance(r, dict) else {}
        key = (gen, tuple(sorted(stages.items())), min(r.get("ndiag", 0), 3) if isinstance(r, dict) else -1, sha(s)[:10])
        run.record(v, {"src": s, "gen": gen}, key=key, nontrivial=len(s.encode("utf-8", "replace")) >= 8)
        if v.status == "held" and stages:
            run.feature("outcome." + ",".join("%s=%s" % kv for kv in sorted(stages.items())))
    for gen, s in inputs[:3] + inputs[-2:]:
        run.sample({"gen": gen, "src": s[:200]}, cap=5)
    # CLI layer on a sample
    build_repo()
    ncli = 150 if quick else 3000
    for gen, s in rng.sample(inputs, ncli):
        if "\x00" in s:
            continue
        v = cli_case(s)
        run.record(v, {"kind": "cli", "src": s}, key=("cli", sha(s)[:10]), nontrivial=len(s) >= 8)
    run.extra["cli_cases"] = ncli
    run.min_held = 5000
    return run.finish()
