"""C12 - compilation is deterministic: same sources, different process instances / locations / environments -> same bytes."""
import os
import random
import re
import shutil
import subprocess
import tempfile
import multiprocessing as mp

import gproj
import gsyn
import progs
from common import BUILD, INCAN, NCPU, Run, Verdict, base_env, build_repo, quarantined, sha

SCR = os.path.join(BUILD, "scratch")
TS = re.compile(r"^\d{4}-\d\d-\d\dT[\d:.]+Z?\s+", re.M)
ANSI = re.compile(r"\x1b\[[0-9;]*m")


def one_instance(args):
    """Run the command set once in a fresh copy of the project at a fresh location with a perturbed environment."""
    proj, k, seed = args
    r = random.Random(seed * 1000 + k)
    base = tempfile.mkdtemp(prefix="c12_%d_" % k, dir=SCR)
    # different absolute location depth / name per instance
    root = os.path.join(base, *["d%d" % r.randint(0, 99) for _ in range(r.randint(0, 3))], "proj")
    os.makedirs(root)
    try:
        names = list(proj["files"])
        r.shuffle(names)  # creation order -> directory entry order
        for rel in names:
            p = os.path.join(root, rel)
            os.makedirs(os.path.dirname(p), exist_ok=True)
            with open(p, "w") as f:
                f.write(proj["files"][rel])
        env = base_env()
        env["PATH"] = progs.ensure_stub() + os.pathsep + env.get("PATH", "")
        env["HOME"] = os.path.join(base, "home%d" % k)
        env["TMPDIR"] = base
        env["LANG"] = r.choice(["C", "C.UTF-8", "en_US.UTF-8", "de_DE.UTF-8"])
        env["TZ"] = r.choice(["UTC", "Asia/Tokyo", "America/New_York"])
        env["NO_COLOR"] = "1"
        for j in range(r.randint(0, 30)):
            env["C12_PAD_%d" % j] = "x" * r.randint(1, 200)
        env["CARGO_TARGET_DIR"] = os.path.join(base, "tgt")
        out = {}
        entry = proj["entry"]

        def run(tag, cmd):
            p = subprocess.run(cmd, cwd=root, env=env, stdout=subprocess.PIPE, stderr=subprocess.PIPE, timeout=120)
            so = TS.sub("", ANSI.sub("", p.stdout.decode("utf-8", "replace")))
            se = TS.sub("", ANSI.sub("", p.stderr.decode("utf-8", "replace")))
            out[tag] = (p.returncode, so, se)

        run("check", [INCAN, "--check", entry])
        run("emit", [INCAN, "--emit-rust", entry])
        run("fmt_diff", [INCAN, "fmt", "--diff", entry])
        run("build", [INCAN, "build", entry, "out"])
        tree = {}
        for rt, _, files in os.walk(os.path.join(root, "out")):
            for fn in sorted(files):
                p = os.path.join(rt, fn)
                tree[os.path.relpath(p, os.path.join(root, "out"))] = open(p, "rb").read()
        out["tree"] = tree
        return out
    finally:
        shutil.rmtree(base, ignore_errors=True)


def compare(instances):
    """Returns None if all instances agree, else a signature naming the first differing artefact."""
    ref = instances[0]
    for k, inst in enumerate(instances[1:], 1):
        for tag in ("check", "emit", "fmt_diff", "build"):
            if inst[tag][0] != ref[tag][0]:
                return "exit status of `incan %s` differs between process instances (%s vs %s)" % (tag, ref[tag][0], inst[tag][0])
            if inst[tag][1] != ref[tag][1]:
                return "stdout of `incan %s` differs between process instances" % tag
            if inst[tag][2] != ref[tag][2]:
                return "stderr (diagnostics) of `incan %s` differs between process instances" % tag
        if set(inst["tree"]) != set(ref["tree"]):
            return "the set of generated files differs between process instances"
        for rel in sorted(ref["tree"]):
            if inst["tree"][rel] != ref["tree"][rel]:
                return "generated %s differs between process instances" % ("Cargo.toml" if rel == "Cargo.toml" else "Rust file " + rel)
    return None


def run_program(proj, n, seed, pool):
    return pool.map(one_instance, [(proj, k, seed) for k in range(n)])


def eval_case(case):
    os.makedirs(SCR, exist_ok=True)
    with mp.Pool(8) as pool:
        inst = run_program(case, case.get("instances", 12), case.get("seed", 1), pool)
    sig = compare(inst)
    return Verdict("violated", sig) if sig else Verdict("held")


def main(tier, seed, replay=None):
    run = Run("C12", tier, seed)
    quick = tier == "quick"
    n_inst = 12 if quick else 40
    run.rule = ("one evaluation = one (program, process instance) compilation: `incan --check`, `--emit-rust`, `fmt --diff` and `incan build` "
                "(cargo stubbed) are run in %d separate processes per program - each with its own hash seed - on copies of the project at "
                "different absolute locations (identical relative arguments), with different HOME/TMPDIR/LANG/TZ/environment size and file "
                "creation order; exit status, stdout, stderr (tracing timestamps removed) and every byte of the generated tree must be equal; "
                "distinct = program feature hash; non-trivial = >= 2 hash-ordered entities (rust:: imports, types, modules or diagnostics)" % n_inst)
    run.assumptions = ["Incan's own switches (INCAN_*, NO_COLOR, RUST_LOG) are inputs and are held fixed",
                       "with N processes a 2-element order flip escapes with probability 2^-(N-1)"]
    build_repo()
    os.makedirs(SCR, exist_ok=True)
    if replay:
        run.record(eval_case(replay["case"]), replay["case"], key="replay")
        return run.finish()
    run.run_known(eval_case)
    rng = random.Random(seed * 43 + 11)
    nprog = 40 if quick else 400
    projs = []
    for i in range(nprog):
        r = random.Random(rng.getrandbits(48))
        k = r.random()
        if k < 0.3:
            p = gproj.gen_illtyped(r)
        elif k < 0.4:
            t, f = gsyn.gen_file(r, (), ndecl=r.randint(2, 5))
            p = {"name": "syn", "files": {"syn.incn": t}, "entry": "syn.incn", "features": {"gsyn"} | set(list(f)[:3]), "unknown_crate": None}
        elif k < 0.5:
            p = gproj.gen_same_name_project(r)
        else:
            p = gproj.gen_project(r, allow_unknown=(r.random() < 0.1), multi=(r.random() < 0.4))
        projs.append(p)
    with mp.Pool(NCPU) as pool:
        for p in projs:
            inst = run_program(p, n_inst, seed, pool)
            sig = compare(inst)
            ntriv = len(p["features"]) >= 2 or "illtyped.multi_diag" in p["features"]
            for f in p["features"]:
                if "." in f or f in ("async", "multi_file", "json_stringify", "gsyn", "web"):
                    run.features[f] = run.features.get(f, 0) + 1
            case = {"name": p["name"], "files": p["files"], "entry": p["entry"], "instances": n_inst, "seed": seed, "features": sorted(p["features"])}
            key = sha(repr(sorted(p["files"].items())))[:12]
            if sig:
                run.record(Verdict("violated", sig), case, key=key, nontrivial=ntriv)
                run.evaluations += n_inst - 1
            else:
                run.record(Verdict("held"), key=key, nontrivial=ntriv, count=1)
                run.evaluations += n_inst - 1
                run.held += n_inst - 1
    run.extra["programs"] = nprog
    run.extra["instances_per_program"] = n_inst
    run.extra["distinct_outputs_per_program"] = 1 if not run.violations else ">1 for the violating programs"
    run.sample({"files": projs[0]["files"], "features": sorted(projs[0]["features"])})
    run.sample({"entry": projs[-1]["entry"], "features": sorted(projs[-1]["features"])})
    run.min_held = 100
    return run.finish()
