"""C13 - any legal Incan name is safe to use: consistent renaming never changes whether a program compiles or what it does."""
import random
import re

import c01
import casecheck
import gprog
import progs
from common import Run, Verdict, build_repo, quarantined, sha

INCAN_KW = set("if else elif match case while for break continue return yield pass def fn async await class model trait enum type newtype "
               "with extends pub import from as rust python super crate const let mut self true True false False None and or not in is".split())
RUST_KW = ("as break const continue crate else enum extern false fn for if impl in let loop match mod move mut pub ref return static struct "
           "super trait true type unsafe use where while async await dyn abstract become box do final macro override priv typeof unsized "
           "virtual yield try gen").split()
RUST_ONLY_KW = [k for k in RUST_KW if k not in INCAN_KW]
GENERATED = ["String", "Box", "ToString", "Sized", "Drop", "Vec", "incan_stdlib", "incan_derive", "std", "core", "serde", "py_mod", "py_div",
             "str_concat", "list_get", "__parts", "__args", "tmp", "FieldInfo", "IncanClass", "main_", "result", "value", "item", "args", "fmt"]
SHAPES = ["_lead", "__double", "trail_", "mid_9_dle", "x1y2z3", "Capitalised", "ALLCAPS", "camelCase"]
TYPE_LOWER = ["point", "loop_type", "my_type"]

# identifier positions, recognised by the generator's naming scheme
POSITIONS = {
    "local": re.compile(r"^v\d+$"),
    "param": re.compile(r"^p\d+$"),
    "loop_var": re.compile(r"^(i|x|ch|it)\d+$"),
    "while_counter": re.compile(r"^w\d+$"),
    "match_binding": re.compile(r"^(m|o)\d+$"),
    "comprehension_var": re.compile(r"^c\d+$"),
    "function": re.compile(r"^c\d+_(f\d+|rec)$"),
    "type": re.compile(r"^C\d+[A-Z][A-Za-z]*\d+$"),
    "method": re.compile(r"^(calc|bump|label)$"),
    "field": re.compile(r"^((x|y|n|name|tag|w|total|flag)\d|child\d)$"),
    "variant": re.compile(r"^(Circle|Rect|Empty|Move|Stop|Num|Word)$"),
}
IDENT = re.compile(r"[A-Za-z_][A-Za-z0-9_]*")


def scan(text):
    """Split source into segments: ("code", s) | ("str", s) where "str" is literal text that renaming must not touch.
    F-strings are split so that their {sub-expressions} are code (recursively) and the rest is literal text."""
    out = []
    i, n = 0, len(text)

    def plain_string(j, quote):
        k = j + 1
        while k < n and text[k] != quote:
            k += 2 if text[k] == "\\" else 1
        return k + 1

    def fstring(j):
        # text[j] == 'f', text[j+1] == '"'
        segs = [("str", 'f"')]
        k = j + 2
        lit = ""
        while k < n and text[k] != '"':
            ch = text[k]
            if ch == "\\":
                lit += text[k:k + 2]
                k += 2
            elif text.startswith("{{", k) or text.startswith("}}", k):
                lit += text[k:k + 2]
                k += 2
            elif ch == "{":
                if lit:
                    segs.append(("str", lit))
                    lit = ""
                depth, m = 1, k + 1
                while m < n and depth > 0:
                    if text[m] == '"':
                        m = plain_string(m, '"')
                        continue
                    if text[m] == "{":
                        depth += 1
                    elif text[m] == "}":
                        depth -= 1
                    m += 1
                segs.append(("str", "{"))
                segs.extend(scan(text[k + 1:m - 1]))
                segs.append(("str", "}"))
                k = m
            else:
                lit += ch
                k += 1
        if lit:
            segs.append(("str", lit))
        segs.append(("str", '"'))
        return segs, k + 1

    buf = ""
    while i < n:
        ch = text[i]
        if ch == "f" and i + 1 < n and text[i + 1] == '"' and (i == 0 or not (text[i - 1].isalnum() or text[i - 1] == "_")):
            if buf:
                out.append(("code", buf))
                buf = ""
            segs, i = fstring(i)
            out.extend(segs)
        elif ch in "\"'":
            if buf:
                out.append(("code", buf))
                buf = ""
            j = plain_string(i, ch)
            out.append(("str", text[i:j]))
            i = j
        elif ch == "#":
            j = text.find("\n", i)
            j = n if j < 0 else j
            if buf:
                out.append(("code", buf))
                buf = ""
            out.append(("str", text[i:j]))
            i = j
        else:
            buf += ch
            i += 1
    if buf:
        out.append(("code", buf))
    return out


def identifiers(text):
    ids = set()
    for kind, s in scan(text):
        if kind == "code":
            ids.update(IDENT.findall(s))
    return ids


def rename(text, old, new):
    """Consistent renaming of identifier `old` outside string literal text (f-string sub-expressions included)."""
    pat = re.compile(r"(?<![A-Za-z0-9_])%s(?![A-Za-z0-9_])" % re.escape(old))
    return "".join(pat.sub(new, s) if kind == "code" else s for kind, s in scan(text))


def name_candidates(pos, r):
    if pos == "type":
        base = ["String", "Box", "Vec", "Drop", "Sized", "FieldInfo", "IncanClass", "Option2", "Self_", "ToString"] + TYPE_LOWER + [k.capitalize() for k in r.sample(RUST_ONLY_KW, 4)]
    elif pos == "variant":
        base = ["String", "Box", "Self_", "Loop", "None_", "Some_", "Ok_", "FieldInfo"]
    else:
        base = RUST_ONLY_KW + GENERATED + SHAPES
    return base


def name_class(n):
    if n in RUST_ONLY_KW:
        return "rust_keyword"
    if n in GENERATED or n in ("Vec", "Option2"):
        return "generated_code_name"
    if n in TYPE_LOWER:
        return "lowercase_type"
    if n[:1].isupper():
        return "capitalised"
    return "shape"


def run_text_jobs(texts):
    jobs = [{"name": "rn", "files": {"rn.incn": t}, "entry": "rn.incn", "check": True, "run": True} for t in texts]
    return progs.run_jobs(jobs, 8)


def behaviour(res):
    ck, b, rn = res["check"], res["build"], res["run"]
    if ck is None or ck.get("rc") != 0:
        return ("check_rejected", casecheck._check_sig(ck))
    if b is None or b.get("timeout"):
        return ("watchdog", "")
    if b.get("rc") != 0:
        return ("build_failed", casecheck.first_rustc_error(b.get("stderr", "") + b.get("stdout", "")))
    if rn is None or rn.get("timeout") or rn.get("missing_binary"):
        return ("watchdog", "")
    return ("ran", (rn["rc"], rn["stdout"], rn["stderr"].strip().split("\n")[-1] if rn["rc"] else ""))


def decide(host_b, ren_b, pos, old, new):
    cell = "%s -> %s name `%s`" % (pos, name_class(new), new)
    if host_b[0] != "ran":
        return Verdict("inconclusive", "precondition: the host program does not build and run (%s)" % host_b[0])
    if ren_b[0] == "watchdog":
        return Verdict("inconclusive", "watchdog")
    if ren_b[0] == "check_rejected":
        return Verdict("violated", "renaming a %s is rejected by --check: %s" % (cell, ren_b[1][:80]))
    if ren_b[0] == "build_failed":
        return Verdict("violated", "renaming a %s breaks the build: %s" % (cell, ren_b[1][:80]))
    if ren_b[1] != host_b[1]:
        return Verdict("violated", "renaming a %s changes the program's behaviour" % cell)
    return Verdict("held")


def eval_case(case):
    res = run_text_jobs([case["host"], rename(case["host"], case["old"], case["new"])])
    return decide(behaviour(res[0]), behaviour(res[1]), case["pos"], case["old"], case["new"])


def main(tier, seed, replay=None):
    run = Run("C13", tier, seed)
    quick = tier == "quick"
    run.rule = ("one evaluation = one (host program, renaming) pair: a generated, building and running host P and rho(P), where rho renames "
                "one identifier consistently (outside string literal text, inside f-string sub-expressions) - positions: local, parameter, "
                "loop variable, while counter, match binding, comprehension variable, function, method, field, type, enum variant - into a "
                "legal non-clashing Incan identifier from the classes: Rust keywords Incan does not reserve, names the generated code relies "
                "on, capitalised value names / lower-case type names, underscore/digit shapes; rho(P) must pass --check, build, and print "
                "exactly what P prints with the same exit status; distinct = (position, name class) cell x host")
    run.assumptions = ["hosts print no identifier-derived text (no debug formatting / reflection)"]
    build_repo()
    if replay:
        run.record(eval_case(replay["case"]), replay["case"], key="replay")
        return run.finish()
    run.run_known(eval_case)
    avoid = quarantined("C01") | quarantined("C02") | c01.RESTRICTIONS
    q13 = quarantined("C13")
    rng = random.Random(seed * 61 + 23)
    nhosts = 14 if quick else 150
    per_host = 16 if quick else 30
    # hosts: generate a pool and keep the ones that add constructs in which a name is *used* in a new way (greedy feature cover)
    RELEVANT = ("decl.class", "model.nested_field", "assign.through_place", "place.list_elem_field", "place.nested_field", "model.field_default",
                "model.ctor_uses_default", "model.ctor_reordered", "model.method_mut", "model.method_str", "model.method_getter", "enum.payload",
                "match.unqualified_pattern", "match.case_style", "match.wildcard", "list.comp", "comp.filter", "fn.default_param", "name.reuse_dead",
                "field.set", "field.aug", "method.mut_call", "stmt.shadow_block", "stmt.for_str", "stmt.while", "decl.list_of_models", "str.fstring")
    pool = []
    for i in range(nhosts * 6):
        c = gprog.gen_case(rng, str(i), avoid, nstmts=rng.randint(5, 10))
        pool.append(c)
    hosts, covered = [], {}
    while len(hosts) < nhosts and pool:
        def gain(c):
            return sum(1.0 / (1 + covered.get(f, 0)) for f in c["features"] if f in RELEVANT or f.startswith("place."))
        best = max(pool, key=gain)
        pool.remove(best)
        for f in best["features"]:
            covered[f] = covered.get(f, 0) + 1
        hosts.append(casecheck.program_text([best]))
    host_res = run_text_jobs(hosts)
    plans = []
    for text, hr in zip(hosts, host_res):
        hb = behaviour(hr)
        if hb[0] != "ran":
            run.record(Verdict("inconclusive", "host program does not build and run (%s)" % hb[0]))
            continue
        ids = identifiers(text)
        by_pos = {}
        for i in ids:
            for pos, rx in POSITIONS.items():
                if rx.match(i):
                    by_pos.setdefault(pos, []).append(i)
        r = random.Random(rng.getrandbits(48))
        cells = []
        for pos in sorted(by_pos):
            ids_here = sorted(by_pos[pos])
            for old_id in (r.sample(ids_here, 4) if len(ids_here) > 4 else ids_here):
                cands = [n for n in name_candidates(pos, r) if n not in ids and n not in INCAN_KW
                         and ("%s|%s" % (pos, name_class(n))) not in q13 and ("name|" + n) not in q13]
                kws = [n for n in cands if name_class(n) == "rust_keyword"]
                rest = [n for n in cands if name_class(n) != "rust_keyword"]
                # every identifier of every position meets one Rust keyword (where the position admits one) and one other hostile name
                for group in (kws, rest):
                    if group:
                        cells.append((pos, old_id, r.choice(group)))
        # round-robin over positions, so that the rarer ones (field, method, type, variant) are never crowded out by locals
        groups = {}
        for c in cells:
            groups.setdefault(c[0], []).append(c)
        # within a position, identifiers that occur inside assignment targets (`a.b.c = v`, `xs[i].f += 1`) and keyword names come
        # last in the list, i.e. are popped first: writing through a name is the rarer use of it
        lhs = " ".join(re.findall(r"^\s*([A-Za-z_][\w\.\[\]\-]*)\s*(?:\+|-|\*|//|/|%)?=(?!=)", text, re.M))
        lhs_ids = set(IDENT.findall(lhs))
        for g in groups.values():
            r.shuffle(g)
            g.sort(key=lambda c: (c[1] in lhs_ids, name_class(c[2]) == "rust_keyword"))
        cells = []
        while any(groups.values()):
            for pos in sorted(groups):
                if groups[pos]:
                    cells.append(groups[pos].pop())
        for pos, old, new in cells[:per_host]:
            plans.append((text, hb, pos, old, new))
    ren_res = run_text_jobs([rename(t, old, new) for (t, hb, pos, old, new) in plans])
    for (t, hb, pos, old, new), rr in zip(plans, ren_res):
        v = decide(hb, behaviour(rr), pos, old, new)
        run.feature("pos." + pos, "class." + name_class(new))
        run.record(v, {"host": t, "old": old, "new": new, "pos": pos}, key=(pos, name_class(new), new, sha(t)[:6]))
    if plans:
        t, hb, pos, old, new = plans[0]
        run.sample({"position": pos, "old": old, "new": new, "host_head": t[:500]})
    run.extra["hosts"] = len(hosts)
    run.extra["renamings"] = len(plans)
    run.extra["quarantined_cells"] = sorted(q13)
    run.min_held = 40
    progs.prune_pools()
    return run.finish()
