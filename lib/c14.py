"""C14 - imports resolve the same everywhere and respect visibility; cycles / missing modules end with a diagnostic."""
import os
import random
import shutil
import subprocess
import tempfile

import hc
from common import BUILD, INCAN, NCPU, Run, Verdict, base_env, build_harness, build_repo, quarantined, sha

SCR = os.path.join(BUILD, "scratch")


def write_tree(root, files):
    for rel, txt in files.items():
        p = os.path.join(root, rel)
        os.makedirs(os.path.dirname(p), exist_ok=True)
        with open(p, "w") as f:
            f.write(txt)


def module_text(rel, fname, body_import=None, pub=True):
    s = ""
    if body_import:
        s += body_import + "\n\n\n"
    s += 'const MARK = "%s"\n\n\n' % rel
    s += "%sdef %s() -> int:\n    return %d\n" % ("pub " if pub else "", fname, len(rel))
    return s


def spell_import(style, prefix, segs, item):
    """Import statement text. style: from_dot | from_cc | rust_item | rust_module"""
    pre = {"none": "", "dotdot": "..", "super": "super::", "super_dot": "super.", "crate": "crate::", "crate_dot": "crate."}[prefix]
    if style == "from_dot":
        return "from %s%s import %s" % (pre, ".".join(segs), item)
    if style == "from_cc":
        return "from %s%s import %s" % (pre, "::".join(segs), item)
    if style == "rust_item":
        return "import %s%s::%s" % (pre, "::".join(segs), item)
    if style == "rust_item_dot":
        return "import %s%s.%s" % (pre, ".".join(segs), item)
    raise ValueError(style)


def gen_scenario(r):
    """One project tree with a single attributable import in the entry file (plus optional nested import in the dependency)."""
    files = {}
    importer_dir = r.choice(["", "", "app", "app/inner"])       # where the entry file lives
    has_src = r.random() < 0.3
    root_marker = "src" if has_src else ""
    # target module location relative to project root
    target_dir = r.choice(["", "db", "db/sub", "app", "app/inner", "common", "stdx", "rusty"])
    # plain names, and names that merely *begin* like a reserved import root (std, rust, python, crate, super, web, testing)
    name = r.choice(["models", "utils", "helpers", "m1", "stdutil", "std_extra", "rustlib", "python_tools", "crate_utils", "supermod", "webby", "testing_aids"])
    ext = "incn" if r.random() < 0.8 else "incan"
    layout = r.choice(["file", "file", "file", "mod_dir"])
    if layout == "mod_dir":
        target_rel = os.path.join(target_dir, name, "mod." + ext)
    else:
        target_rel = os.path.join(target_dir, name + "." + ext)
    base = root_marker
    tr = os.path.normpath(os.path.join(base, target_rel))
    item = "f_" + name
    # how to reach target_dir from importer_dir
    imp_abs = os.path.normpath(os.path.join(base, importer_dir))
    tgt_abs = os.path.normpath(os.path.join(base, target_dir))
    rel = os.path.relpath(tgt_abs, imp_abs)
    parts = [] if rel == "." else rel.split(os.sep)
    ups = len([p for p in parts if p == ".."])
    downs = [p for p in parts if p != ".."]
    options = []
    if ups == 0:
        options.append(("none", downs + [name]))
    if ups == 1:
        options.append(("dotdot", downs + [name]))
        options.append(("super", downs + [name]))
    if (has_src or r.random() < 0.3):
        # crate-absolute: needs a project root marker (src/ dir or Cargo.toml)
        options.append(("crate", [p for p in target_dir.split("/") if p] + [name]))
    if not options:
        return None
    prefix, segs = r.choice(options)
    if prefix == "crate" and not has_src:
        files["Cargo.toml"] = "[package]\nname = \"x\"\n"
    if prefix in ("super", "crate") and r.random() < 0.3:
        prefix += "_dot"
    style = r.choice(["from_dot", "from_cc", "rust_item", "rust_item"])
    if prefix.endswith("_dot") and style in ("from_cc", "rust_item"):
        style = "from_dot"
    stmt = spell_import(style, prefix, segs, item)
    # decoys: same-named files elsewhere, shadowing candidates
    decoys = []
    if r.random() < 0.4:
        d = os.path.normpath(os.path.join(base, r.choice(["", "db", "app", "other"]), name + ".incn"))
        if d != tr and not (layout == "mod_dir" and os.path.dirname(os.path.dirname(tr)) == os.path.dirname(d)):
            decoys.append(d)
    if r.random() < 0.3:
        # a file named like the imported *item*, inside a directory named like the module: `import a::m::item` must still mean
        # item `item` of module `a::m`, not a module `a::m::item`
        d = os.path.normpath(os.path.join(base, target_dir, name, item + ".incn"))
        if d != tr:
            decoys.append(d)
    ambiguous = False
    if r.random() < 0.15 and layout == "file":
        # both a file and a mod directory, or both extensions: documented preference is .incn before .incan; file before mod dir
        other = os.path.normpath(os.path.join(base, target_dir, name + (".incan" if ext == "incn" else ".incn")))
        decoys.append(other)
        ambiguous = True
    nested = None
    if r.random() < 0.35:
        # the dependency itself imports a sibling of *its own* directory
        sib = "sib_" + name
        sib_rel = os.path.normpath(os.path.join(os.path.dirname(tr), sib + ".incn"))
        files[sib_rel] = module_text(sib_rel, "f_" + sib)
        nested = ("from %s import f_%s" % (sib, sib), sib_rel)
    files[tr] = module_text(tr, item, nested[0] if nested else None)
    for d in decoys:
        files.setdefault(d, module_text(d, item))
    entry_rel = os.path.normpath(os.path.join(base, importer_dir, "main.incn"))
    files[entry_rel] = "%s\n\n\ndef main() -> None:\n    println(%s())\n" % (stmt, item)
    expected = {tr} | ({nested[1]} if nested else set())
    if ext == "incan" and layout == "file":
        twin = tr[:-len(".incan")] + ".incn"
        if twin in files and twin != tr:
            expected = {twin}   # `.incn` is looked up before `.incan`; the decoy has no nested import
    if ambiguous:
        first = tr if ext == "incn" else decoys[-1]
        expected = {first} | ({nested[1]} if nested and first == tr else set())
    cls = "%s|%s|%s|ext=%s|importer=%s|%s%s" % (style, prefix, layout, ext, "root" if not importer_dir else "nested", "nested_dep" if nested else "flat", "|ambiguous" if ambiguous else "")
    return {"files": files, "entry": entry_rel, "expected": sorted(expected), "class": cls, "stmt": stmt}


def observe(scn_list):
    """Materialise scenarios under scratch dirs and ask the harness which files each resolver picks."""
    os.makedirs(SCR, exist_ok=True)
    roots, reqs = [], []
    for s in scn_list:
        d = tempfile.mkdtemp(prefix="c14_", dir=SCR)
        write_tree(d, s["files"])
        roots.append(d)
        reqs.append({"op": "resolve", "entry": os.path.join(d, s["entry"])})
    # the language server's side is observed on the real server: open the entry file and record for which files it publishes
    # diagnostics (every dependency it loads gets a publish; the harness waits for the expected number, 60 virtual seconds at most)
    lsp_reqs = []
    for s, d in zip(scn_list, roots):
        ep = os.path.join(d, s["entry"])
        lsp_reqs.append({"op": "lsp", "delays": [], "backpressure_ms": 0,
                         "phases": [{"events": [{"type": "open", "uri": "file://" + ep, "version": 1, "text": s["files"][s["entry"]]}],
                                     "extra_publishes": len(s["expected"]), "probes": []}]})
    try:
        reps = hc.run_requests(reqs, nproc=NCPU, shard=100)
        lreps = hc.run_requests(lsp_reqs, nproc=NCPU, shard=100, timeout=120)
        for rep, lrep, s, d in zip(reps, lreps, scn_list, roots):
            if isinstance(lrep, dict) and "log" in lrep:
                real = set()
                for e in lrep["log"]:
                    m = e.get("msg", {})
                    if e.get("dir") == "s2c" and m.get("method") == "textDocument/publishDiagnostics":
                        pth = m["params"]["uri"][len("file://"):]
                        rel = os.path.relpath(os.path.realpath(pth), os.path.realpath(d))
                        if rel != os.path.normpath(s["entry"]):
                            real.add(rel)
                rep["lsp_real"] = sorted(real)
            else:
                rep["lsp_real_error"] = str(lrep)[:200]
        return reps
    finally:
        for d in roots:
            shutil.rmtree(d, ignore_errors=True)


def decide_resolution(s, rep):
    if "panic" in rep or "crash" in rep or "timeout" in rep:
        return Verdict("violated", "%s: resolver crashed/hung (%s)" % (s["class"], rep.get("panic", "process died")))
    cli = rep["cli"]
    if "lsp_real" not in rep:
        return Verdict("inconclusive", "language server session did not complete: %s" % rep.get("lsp_real_error", "?")[:80])
    lsp = set(rep["lsp_real"])
    exp = set(s["expected"])
    if not cli["ok"]:
        return Verdict("violated", "%s: command-line collector fails on a resolvable project: %s" % (s["class"], cli.get("error", "")[:80]))
    cli_set = set(d["marker"] for d in cli["deps"] if d["marker"])
    if cli_set != lsp:
        return Verdict("violated", "%s: command line and language server pick different files (cli=%s, lsp=%s) for `%s`"
                       % (s["class"], sorted(cli_set), sorted(lsp), s["stmt"]))
    if cli_set != exp:
        return Verdict("violated", "%s: both resolvers pick %s, the documented rule gives %s for `%s`" % (s["class"], sorted(cli_set), sorted(exp), s["stmt"]))
    return Verdict("held")


# ---- visibility and failure-mode scenarios run through the real CLI ----

def run_check(files, entry, timeout=30):
    d = tempfile.mkdtemp(prefix="c14c_", dir=SCR)
    try:
        write_tree(d, files)
        env = base_env()
        env["NO_COLOR"] = "1"
        try:
            p = subprocess.run([INCAN, "--check", entry], cwd=d, env=env, stdout=subprocess.PIPE, stderr=subprocess.PIPE, text=True, timeout=timeout)
            return p.returncode, p.stdout + p.stderr
        except subprocess.TimeoutExpired:
            return None, "timeout"
    finally:
        shutil.rmtree(d, ignore_errors=True)


DECL_KINDS = {
    "function": ("%sdef item() -> int:\n    return 1\n", "println(%s())"),
    "const": ("%sconst item: int = 3\n", "println(%s)"),
    "model": ("%smodel item:\n    a: int\n", "v = %s(a=1)\n    println(v.a)"),
    "enum": ("%senum item:\n    A\n    B\n", "v = %s.A"),
    "class": ("%sclass item:\n    a: int\n", "v = %s(a=1)\n    println(v.a)"),
}


def visibility_scenarios():
    out = []
    for kind, (decl, use) in DECL_KINDS.items():
        for pub in (True, False):
            for style in ("from", "rust_item", "module_qualified"):
                name = "Item" if kind in ("model", "enum", "class") else ("ITEM" if kind == "const" else "item")
                dtext = (decl % ("pub " if pub else "")).replace("item", name)
                mod = "const MARK = \"m.incn\"\n\n\n" + dtext
                if style == "from":
                    imp, ref = "from m import %s" % name, name
                elif style == "rust_item":
                    imp, ref = "import m::%s" % name, name
                else:
                    imp, ref = "import m", "m.%s" % name
                entry = "%s\n\n\ndef main() -> None:\n    %s\n" % (imp, use % ref)
                out.append({"kind": "visibility", "class": "vis|%s|%s|%s" % (kind, "pub" if pub else "private", style), "files": {"m.incn": mod, "main.incn": entry},
                            "entry": "main.incn", "expect": "accept" if pub else "reject"})
            # the same item reached through every other spelling of the module path (and through a module whose name merely begins like
            # a reserved root): visibility must not depend on how the path is written
            name = "Item" if kind in ("model", "enum", "class") else ("ITEM" if kind == "const" else "item")
            dtext = (decl % ("pub " if pub else "")).replace("item", name)
            for style, mname, mpath, epath, imp in (
                    ("from_crate", "m", "src/m.incn", "src/main.incn", "from crate::m import %s"),
                    ("from_crate_dot", "m", "src/m.incn", "src/main.incn", "from crate.m import %s"),
                    ("rust_item_crate", "m", "src/m.incn", "src/main.incn", "import crate::m::%s"),
                    ("from_dotdot", "m", "m.incn", "app/main.incn", "from ..m import %s"),
                    ("from_super", "m", "m.incn", "app/main.incn", "from super::m import %s"),
                    ("rust_item_super", "m", "m.incn", "app/main.incn", "import super::m::%s"),
                    ("from_nested", "m", "db/m.incn", "main.incn", "from db.m import %s"),
                    ("from_nested_cc", "m", "db/m.incn", "main.incn", "from db::m import %s"),
                    ("from_std_prefixed_name", "stdutil", "stdutil.incn", "main.incn", "from stdutil import %s"),
                    ("from_rust_prefixed_name", "rustlib", "rustlib.incn", "main.incn", "from rustlib import %s"),
                    ("from_mod_dir", "m", "m/mod.incn", "main.incn", "from m import %s")):
                mod = "const MARK = \"%s\"\n\n\n" % mpath + dtext
                entry = "%s\n\n\ndef main() -> None:\n    %s\n" % (imp % name, use % name)
                out.append({"kind": "visibility", "class": "vis|%s|%s|%s" % (kind, "pub" if pub else "private", style), "files": {mpath: mod, epath: entry},
                            "entry": epath, "expect": "accept" if pub else "reject"})
    return out


def failure_scenarios():
    out = []
    for n in (1, 2, 3, 4):
        files = {}
        for i in range(n):
            nxt = (i + 1) % n
            files["c%d.incn" % i] = "from c%d import g%d\n\n\npub def g%d() -> int:\n    return %d\n" % (nxt, nxt, i, i)
        files["main.incn"] = "from c0 import g0\n\n\ndef main() -> None:\n    println(g0())\n"
        out.append({"kind": "cycle", "class": "cycle|len%d" % n, "files": files, "entry": "main.incn"})
    for style, stmt in (("from", "from nowhere import thing"), ("rust_item", "import nowhere::thing"), ("nested", "from db.nowhere import thing"), ("parent", "from ..nowhere import thing")):
        out.append({"kind": "missing", "class": "missing|" + style, "files": {"main.incn": "%s\n\n\ndef main() -> None:\n    println(thing())\n" % stmt}, "entry": "main.incn"})
    return out


def decide_cli(s):
    rc, out = run_check(s["files"], s["entry"])
    if rc is None:
        return Verdict("violated", "%s: `incan --check` did not terminate within 30 s" % s["class"])
    if rc not in (0, 1):
        return Verdict("violated", "%s: `incan --check` crashed (exit %s)" % (s["class"], rc))
    if s["kind"] == "visibility":
        if s["expect"] == "reject" and rc == 0:
            return Verdict("violated", "%s: a reference to a non-pub item of another module is accepted" % s["class"])
        if s["expect"] == "accept" and rc != 0:
            return Verdict("inconclusive", "precondition: the pub twin is rejected (%s)" % out.strip().split("\n")[0][:80])
        return Verdict("held")
    if s["kind"] == "missing":
        if rc == 0:
            return Verdict("violated", "%s: a missing module passes --check without a diagnostic" % s["class"])
        return Verdict("held") if out.strip() else Verdict("violated", "%s: exit 1 without any diagnostic" % s["class"])
    if s["kind"] == "cycle":
        # a cycle must end with a verdict (accept or diagnostic), never hang/crash; exit 0/1 both terminate
        if rc == 1 and not out.strip():
            return Verdict("violated", "%s: exit 1 without any diagnostic" % s["class"])
        return Verdict("held")
    raise ValueError(s["kind"])


def eval_case(case):
    if case.get("kind") in ("visibility", "cycle", "missing"):
        return decide_cli(case)
    rep = observe([case])[0]
    return decide_resolution(case, rep)


def main(tier, seed, replay=None):
    run = Run("C14", tier, seed)
    run.rule = ("resolution: one evaluation = one generated project tree (nested dirs, both extensions, mod-directories, decoy files, entry at "
                "depth 0-2, optional nested import inside the dependency) x one import spelling (from a.b / from a::b / import a::b::item, "
                "with ../super/crate prefixes); the set of files picked by the command-line collector and by the language server's resolver "
                "(read off marker consts in the loaded sources) must be equal and equal to the documented rule; visibility: every declaration "
                "kind x {pub, private} x {from-import, item import, module-qualified use} through `incan --check`; failure modes: import cycles "
                "of length 1-4 and missing modules end with exit 0/1 and a diagnostic; distinct = scenario class x tree hash")
    run.assumptions = ["documented rule: reference/imports_and_modules.md (last segment of a Rust-style path is the item; paths are relative to the importing file; crate = dir with Cargo.toml or src/; .incn before .incan)"]
    build_harness()
    build_repo()
    os.makedirs(SCR, exist_ok=True)
    if replay:
        run.record(eval_case(replay["case"]), replay["case"], key="replay")
        return run.finish()
    run.run_known(eval_case)
    avoid = quarantined("C14")
    rng = random.Random(seed * 37 + 5)
    n = 400 if tier == "quick" else 8000
    scns = []
    while len(scns) < n:
        s = gen_scenario(random.Random(rng.getrandbits(48)))
        if s is None:
            continue
        if any(q in s["class"] for q in avoid):
            continue
        scns.append(s)
    reps = observe(scns)
    for s, rep in zip(scns, reps):
        v = decide_resolution(s, rep)
        run.feature("res." + s["class"].split("|ext")[0])
        run.record(v, dict(s, kind="resolution"), key=(s["class"], sha(repr(sorted(s["files"])))[:8]))
        if v.status == "violated":
            kind = "disagree" if "different files" in v.signature else ("cli-fails" if "collector fails" in v.signature else "both-differ-from-doc")
            k2 = s["class"].split("|ext")[0] + "|" + s["class"].split("|", 4)[4].split("|", 1)[1] if False else s["class"]
            d = run.extra.setdefault("resolution_violations", {})
            d[kind + " " + k2.replace("|ext=incn", "").replace("|ext=incan", "")] = d.get(kind + " " + k2.replace("|ext=incn", "").replace("|ext=incan", ""), 0) + 1
    for s in visibility_scenarios() + failure_scenarios():
        if any(q in s["class"] for q in avoid):
            continue
        v = decide_cli(s)
        run.feature(s["kind"])
        run.record(v, s, key=s["class"])
        if v.status == "violated":
            run.extra.setdefault("cli_scenario_violations", []).append(s["class"])
    run.sample({"class": scns[0]["class"], "import": scns[0]["stmt"], "files": sorted(scns[0]["files"]), "expected": scns[0]["expected"]})
    run.sample({"class": scns[-1]["class"], "import": scns[-1]["stmt"], "files": sorted(scns[-1]["files"]), "expected": scns[-1]["expected"]})
    run.extra["quarantined"] = sorted(avoid)
    run.min_held = 100
    return run.finish()
