"""C15 - the generated Cargo project declares exactly what the code needs, pinned."""
import random
import re
import tomllib

import gproj
import progs
from common import Run, Verdict, build_repo, quarantined, sha

PRIMS = set("i8 i16 i32 i64 i128 u8 u16 u32 u64 u128 f32 f64 str char bool usize isize std core alloc crate self super clippy rustfmt rustdoc".split())


def crate_roots(tree):
    """External crate roots referenced by the generated Rust sources (lexical scan, strings/comments stripped)."""
    roots = set()
    local = set()
    for rel, txt in tree.items():
        if rel.endswith(".rs"):
            local.add(rel.split("/")[-1][:-3])
            for m in re.finditer(r"^\s*(?:pub\s+)?mod\s+([a-z_][a-z0-9_]*)\s*[;{]", txt, re.M):
                local.add(m.group(1))
    for rel, txt in tree.items():
        if not rel.endswith(".rs"):
            continue
        t = re.sub(r"//[^\n]*", "", txt)
        t = re.sub(r'"(?:[^"\\]|\\.)*"', '""', t)
        # members of a use group (`use axum::{extract::Path, routing::get}`) are paths inside the crate, not crate roots
        for _ in range(4):
            t = re.sub(r"::\s*\{[^{}]*\}", "::GROUP", t)
        for m in re.finditer(r"(?<![A-Za-z0-9_:.])([a-z_][a-z0-9_]*)::", t):
            roots.add(m.group(1))
        for m in re.finditer(r"\buse\s+([a-z_][a-z0-9_]*)\s*(?:::|;| as )", t):
            roots.add(m.group(1))
    return {x for x in roots if x not in PRIMS and x not in local and not x.startswith("r#")}


def inspect(proj, res):
    b = res["build"]
    tree = res.get("tree") or {}
    name = proj["name"]
    if proj["unknown_crate"]:
        if b["rc"] == 0:
            return Verdict("violated", "unknown crate is not refused: `incan build` exits 0 for rust::%s (class %s)" % ("<crate>", "unknown_crate"),
                           {"cargo_toml": tree.get("Cargo.toml")})
        if proj["unknown_crate"] not in (b["stderr"] + b["stdout"]):
            return Verdict("violated", "refusal of an unknown crate does not name the crate")
        return Verdict("held")
    if b["rc"] != 0:
        return Verdict("inconclusive", "incan build failed before/while generating the project: %s" % (b["stderr"].strip().split("\n")[-1][:100]))
    ct = tree.get("Cargo.toml")
    if ct is None:
        return Verdict("violated", "no Cargo.toml was generated")
    try:
        t = tomllib.loads(ct)
    except tomllib.TOMLDecodeError as e:
        return Verdict("violated", "Cargo.toml is not valid TOML: %s" % str(e)[:60])
    if t.get("package", {}).get("name") != name:
        return Verdict("violated", "package name is %r, the program is %r" % (t.get("package", {}).get("name"), name))
    bins = t.get("bin", [])
    if not bins or bins[0].get("name") != name:
        return Verdict("violated", "[[bin]] name is %r, the program is %r" % (bins[0].get("name") if bins else None, name))
    deps = t.get("dependencies", {})
    for k, v in deps.items():
        ver = v if isinstance(v, str) else v.get("version")
        path = None if isinstance(v, str) else v.get("path")
        if path is None and (ver is None or ver.strip() in ("*", "")):
            return Verdict("violated", "dependency has neither a pinned version nor a path (spec %r)" % (v,), {"crate": k})
    used = crate_roots(tree)
    declared = set(deps)
    missing = used - declared
    # every `rust::` import is declared whether or not the generated code ends up referring to it
    allowed = set(proj.get("expect_crates", ()))
    if proj["features"] & {"serde.derive", "json_stringify"}:
        allowed |= {"serde", "serde_json"}  # the serde feature is used: both of its crates belong to it, referred to or not
    extra = declared - used - allowed
    if missing:
        return Verdict("violated", "generated Rust refers to crate(s) Cargo.toml does not declare: %s" % sorted(missing), {"cargo_toml": ct})
    if extra:
        return Verdict("violated", "Cargo.toml declares crate(s) nothing refers to: %s" % sorted(extra), {"features": sorted(proj["features"])})
    return Verdict("held")


def job_of(proj, real=False):
    return {"name": proj["name"], "files": proj["files"], "entry": proj["entry"], "check": False, "run": False, "stub_cargo": not real, "want_tree": True}


def eval_case(case):
    proj = dict(case, features=set(case.get("features", [])), expect_crates=set(case.get("expect_crates", [])))
    res = progs.run_jobs([job_of(proj, real=case.get("real", False))], 1)[0]
    if case.get("real"):
        b = res["build"]
        if b["rc"] != 0:
            err = b["stderr"] + b["stdout"]
            if re.search(r"no matching package named|failed to (select a version|get) ", err):
                return Verdict("inconclusive", "crate not in the offline registry")
            return Verdict("violated", "real build of the generated project fails: %s" % __import__("casecheck").first_rustc_error(err))
    return inspect(proj, res)


def main(tier, seed, replay=None):
    run = Run("C15", tier, seed)
    quick = tier == "quick"
    run.rule = ("one evaluation = one generated program (subsets of feature triggers: serde derives, json_stringify in 8 placements, async/await, "
                "2-6 rust:: imports in random order, std imports, unknown crates, triggers that occur only in a dependency module, several "
                "project names) pushed through the real `incan build` (cargo stubbed for the generation-only part; a subset is compiled for "
                "real): Cargo.toml parses, names package and [[bin]] after the program, every dependency has a pinned version or a path, the "
                "declared crate set equals the crate roots the generated Rust refers to, unknown crates are refused by name; distinct = "
                "feature-set + placement hash; non-trivial = >= 2 triggers")
    run.assumptions = ["crate roots are extracted lexically (`root::` paths and `use root` outside strings/comments, minus std/core/alloc/crate/self/super, primitive types and local modules)"]
    build_repo()
    if replay:
        run.record(eval_case(replay["case"]), replay["case"], key="replay")
        return run.finish()
    run.run_known(eval_case)
    avoid = quarantined("C15")
    rng = random.Random(seed * 41 + 9)
    n = 300 if quick else 4000
    projs = []
    while len(projs) < n:
        p = gproj.gen_project(random.Random(rng.getrandbits(48)))
        if p["features"] & avoid:
            continue
        projs.append(p)
    res = progs.run_jobs([job_of(p) for p in projs], 8)
    for p, r in zip(projs, res):
        v = inspect(p, r)
        for f in p["features"]:
            run.features[f] = run.features.get(f, 0) + 1
        case = dict(p, features=sorted(p["features"]), expect_crates=sorted(p["expect_crates"]))
        run.record(v, case, key=sha(",".join(sorted(p["features"])) + p["name"])[:12], nontrivial=len(p["features"]) >= 2)
    # real builds for a subset restricted to crates present in the offline registry
    nreal = 8 if quick else 150
    real = []
    while len(real) < nreal:
        p = gproj.gen_project(random.Random(rng.getrandbits(48)), allow_unknown=False)
        if (p["expect_crates"] - {"incan_stdlib", "incan_derive", "serde", "serde_json", "tokio"}) or (p["features"] & avoid):
            continue
        real.append(p)
    res = progs.run_jobs([job_of(p, real=True) for p in real], 8)
    for p, r in zip(real, res):
        b = r["build"]
        case = dict(p, features=sorted(p["features"]), expect_crates=sorted(p["expect_crates"]), real=True)
        if b["rc"] != 0:
            err = b["stderr"] + b["stdout"]
            if re.search(r"no matching package named|failed to (select a version|get) ", err):
                run.record(Verdict("inconclusive", "crate not in the offline registry"))
                continue
            import casecheck
            sig = casecheck.first_rustc_error(err)
            if re.search(r"unresolved import|use of undeclared crate|can't find crate|unresolved extern", err):
                run.record(Verdict("violated", "real build: the generated Rust needs a crate Cargo.toml omits: %s" % sig), case, key=("real", sha(repr(sorted(p["features"])))[:8]))
            else:
                run.record(Verdict("inconclusive", "real build fails for a reason unrelated to dependencies (C02 territory): %s" % sig[:60]))
            continue
        run.record(inspect(p, r), case, key=("real", sha(repr(sorted(p["features"])))[:8]))
    run.extra["real_builds"] = nreal
    run.sample({"files": projs[0]["files"], "features": sorted(projs[0]["features"])})
    run.sample({"name": projs[-1]["name"], "features": sorted(projs[-1]["features"])})
    run.min_held = 100
    return run.finish()
