"""C16 - `incan test` reports the truth: generated test files with ground truth by construction, run through the real runner."""
import multiprocessing as mp
import os
import random
import re
import shutil
import subprocess
import tempfile

from common import BUILD, INCAN, NCPU, Run, Verdict, base_env, build_repo, quarantined, sha

SCR = os.path.join(BUILD, "scratch")
ANSI = re.compile(r"\x1b\[[0-9;]*m")

BODIES = {
    # kind -> (lines between the markers, truth when run)
    "pass_simple": (["assert_eq(1 + 1, 2)"], "pass"),
    "pass_loop": (["mut t = 0", "for i in range(4):", "    t += i", "assert_eq(t, 6)"], "pass"),
    "pass_assert_true": (["assert_true(2 > 1)", "assert_false(1 > 2)", "assert_ne(1, 2)"], "pass"),
    "fail_assert_eq": (["assert_eq(1, 2)"], "fail"),
    "fail_assert": (["assert(1 > 2)"], "fail"),
    "fail_call": (['fail("boom")'], "fail"),
    "fail_late": (["assert_eq(1, 1)", "assert_eq(3, 4)"], "fail"),
    "panic_zero_div": (["z = 0", "println(1 // z)"], "fail"),
    "panic_index": (["xs = [1, 2]", "println(xs[5])"], "fail"),
}
NAMES = ["test_add", "test_addition", "test_add_more", "test_sub", "test_subtract", "test_mul", "test_parse", "test_parse_int", "test_io", "test_misc"]


def gen_file(r, fidx, ntests, first_name=None, plan=None):
    lines = ["from testing import assert, assert_eq, assert_ne, assert_true, assert_false, fail", "", ""]
    tests = []
    names = r.sample(NAMES, ntests)
    if first_name is not None:
        # the same test name as the previous file's last test: tests are identified by file AND name
        names = [first_name] + [n for n in names if n != first_name][:ntests - 1]
    for pos, n in enumerate(names):
        kind = r.choice(list(BODIES))
        marker = r.choice([None, None, None, "skip", "xfail", "slow"])
        if plan is not None and pos < len(plan):
            kind, marker = plan[pos]
        tid = "f%d_%s" % (fidx, n)
        body, truth = BODIES[kind]
        if marker == "skip":
            lines.append('@skip("not yet")')
        elif marker == "xfail":
            lines.append('@xfail("known")')
        elif marker == "slow":
            lines.append("@slow")
        lines.append("def %s() -> None:" % n)
        lines.append('    write_file("MARKDIR/%s.started", "s")' % tid)
        lines += ["    " + l for l in body]
        lines.append('    write_file("MARKDIR/%s.finished", "f")' % tid)
        lines += ["", ""]
        tests.append({"name": n, "id": tid, "kind": kind, "truth": truth, "marker": marker})
    return "\n".join(lines), tests


def expected_for(tests, flags):
    """Selection and expected verdict per test, in file order, honouring -k / --slow / -x."""
    sel = []
    for t in tests:
        if "k" in flags and flags["k"] not in t["name"]:
            continue
        if t["marker"] == "slow" and not flags.get("slow"):
            continue
        sel.append(t)
    out = []
    stopped = False
    for t in sel:
        if stopped:
            break
        if t["marker"] == "skip":
            out.append((t, "SKIPPED"))
            continue
        ok = t["truth"] == "pass"
        if t["marker"] == "xfail":
            out.append((t, "XPASS" if ok else "XFAIL"))
        else:
            out.append((t, "PASSED" if ok else "FAILED"))
            if not ok and flags.get("x"):
                stopped = True
    return out


def run_scenario(args):
    scn, worker = args
    ident = mp.current_process()._identity
    if ident:
        worker = ident[0] % 16  # one shared target dir per *process*: concurrent cargo runs must not share it
    d = tempfile.mkdtemp(prefix="c16_", dir=SCR)
    try:
        markdir = os.path.join(d, "marks")
        os.makedirs(markdir)
        os.makedirs(os.path.join(d, "tests"))
        for fn, txt in scn["files"].items():
            with open(os.path.join(d, "tests", fn), "w") as f:
                f.write(txt.replace("MARKDIR", markdir))
        env = base_env()
        env["NO_COLOR"] = "1"
        env["RUST_BACKTRACE"] = "0"
        env["CARGO_TARGET_DIR"] = os.path.join(BUILD, "gen", "t%d" % worker)
        import progs
        env["CARGO_HOME"] = progs._cargo_home(worker)
        lock = progs.worker_lock(100 + worker)
        cmd = [INCAN, "test"]
        fl = scn["flags"]
        if "k" in fl:
            cmd += ["-k", fl["k"]]
        if fl.get("slow"):
            cmd += ["--slow"]
        if fl.get("x"):
            cmd += ["-x"]
        cmd += ["tests"]
        try:
            p = subprocess.run(cmd, cwd=d, env=env, stdout=subprocess.PIPE, stderr=subprocess.PIPE, timeout=1200)
        except subprocess.TimeoutExpired:
            return {"timeout": True}
        out = ANSI.sub("", p.stdout.decode("utf-8", "replace"))
        err = ANSI.sub("", p.stderr.decode("utf-8", "replace"))
        marks = set(os.listdir(markdir))
        return {"rc": p.returncode, "stdout": out, "stderr": err, "marks": sorted(marks)}
    finally:
        try:
            lock.close()
        except NameError:
            pass
        shutil.rmtree(d, ignore_errors=True)


def decide(scn, rep):
    if rep.get("timeout"):
        return Verdict("inconclusive", "incan test watchdog"), 0
    out = rep["stdout"]
    marks = set(rep["marks"])
    verdicts = {}
    for m in re.finditer(r"^(\S+)::(\S+) (PASSED|FAILED|SKIPPED|XFAIL|XPASS)", out, re.M):
        verdicts[(m.group(1), m.group(2))] = m.group(3)
    nchecked = 0
    exp_all = []
    for fn in sorted(scn["tests"]):
        exp_all += [(fn, t, v) for (t, v) in expected_for(scn["tests"][fn], scn["flags"])]
    if scn["flags"].get("x"):
        # -x stops the whole session after the first failure
        cut = []
        for fn, t, v in exp_all:
            cut.append((fn, t, v))
            if v == "FAILED":
                break
        exp_all = cut
    exp_keys = set()
    for fn, t, v in exp_all:
        key = (fn, t["name"])
        exp_keys.add(key)
        got = verdicts.get(key)
        nchecked += 1
        desc = "%s%s" % (t["kind"], "+" + t["marker"] if t["marker"] else "")
        if got is None:
            return Verdict("violated", "selected test (%s) has no verdict line (flags %s)" % (desc, flags_str(scn))), nchecked
        if got != v:
            return Verdict("violated", "test (%s) reported %s, the truth is %s (flags %s)" % (desc, got, v, flags_str(scn))), nchecked
        started, finished = t["id"] + ".started" in marks, t["id"] + ".finished" in marks
        if got in ("PASSED", "XPASS") and not (started and finished):
            return Verdict("violated", "test (%s) reported %s but its body did not run to completion" % (desc, got)), nchecked
        if got == "SKIPPED" and started:
            return Verdict("violated", "a @skip test was executed"), nchecked
        if got in ("FAILED", "XFAIL") and finished:
            return Verdict("violated", "test (%s) reported %s although its body ran to completion" % (desc, got)), nchecked
    extra = set(verdicts) - exp_keys
    if extra:
        return Verdict("violated", "a test outside the selected subset was run/reported (flags %s): %s" % (flags_str(scn), sorted(extra)[0][1])), nchecked
    # summary counts
    tally = {}
    for v in verdicts.values():
        tally[v] = tally.get(v, 0) + 1
    m = re.search(r"=+ (.*?) in [\d.]+s =+", out)
    if verdicts:
        if not m:
            return Verdict("violated", "no summary line"), nchecked
        summ = {k2: int(k1) for k1, k2 in re.findall(r"(\d+) (passed|failed|skipped|xfailed|xpassed)", m.group(1))}
        want = {"passed": tally.get("PASSED", 0), "failed": tally.get("FAILED", 0), "skipped": tally.get("SKIPPED", 0), "xfailed": tally.get("XFAIL", 0), "xpassed": tally.get("XPASS", 0)}
        for k, n in want.items():
            if summ.get(k, 0) != n:
                return Verdict("violated", "summary says %d %s, the verdict lines show %d" % (summ.get(k, 0), k, n)), nchecked
    bad = any(v in ("FAILED", "XPASS") for v in verdicts.values())
    if bad and rep["rc"] == 0:
        return Verdict("violated", "exit status 0 although a selected test failed (or an xfail passed)"), nchecked
    if not bad and rep["rc"] != 0 and verdicts:
        return Verdict("violated", "exit status %s although no selected test failed" % rep["rc"]), nchecked
    return Verdict("held"), nchecked


def flags_str(scn):
    f = scn["flags"]
    return " ".join((["-k " + f["k"]] if "k" in f else []) + (["--slow"] if f.get("slow") else []) + (["-x"] if f.get("x") else [])) or "none"


def gen_scenario(r):
    nfiles = r.randint(1, 2)
    files, tests = {}, {}
    for i in range(nfiles):
        fn = "test_%s.incn" % r.choice(["math", "io", "core", "util"]) if i == 0 else "test_more%d.incn" % i
        prev_last = tests[list(tests)[-1]][-1]["name"] if tests and r.random() < 0.5 else None
        plan = None
        nt = r.randint(1, 4)
        if i == 0 and r.random() < 0.35:
            # verdict kinds in an order that matters for fail-fast (-x): non-failures (XFAIL, SKIPPED, XPASS...) before a real failure
            fails = [k for k in BODIES if BODIES[k][1] == "fail"]
            passes = [k for k in BODIES if BODIES[k][1] == "pass"]
            plan = [(r.choice(passes), None), (r.choice(fails), "xfail"), (r.choice(passes + fails), r.choice(["skip", "xfail"])), (r.choice(fails), None)]
            nt = r.randint(4, 5)
        txt, ts = gen_file(r, i, nt, first_name=prev_last, plan=plan)
        files[fn] = txt
        tests[fn] = ts
    flags = {}
    k = r.random()
    if k < 0.25:
        flags["k"] = r.choice(["add", "sub", "parse", "addition", "test_"])
    if r.random() < 0.3:
        flags["slow"] = True
    if r.random() < 0.3:
        flags["x"] = True
    return {"files": files, "tests": tests, "flags": flags}


def eval_case(case):
    os.makedirs(SCR, exist_ok=True)
    rep = run_scenario((case, 0))
    return decide(case, rep)[0]


def main(tier, seed, replay=None):
    run = Run("C16", tier, seed)
    quick = tier == "quick"
    run.rule = ("one evaluation = one test function's verdict observed through the real `incan test` (its own cargo test run): generated files "
                "with ground truth by construction (9 body kinds: passing, assert_eq/assert/fail failures, late failure, ZeroDivision and "
                "IndexError panics) x markers (@skip, @xfail, @slow) x flags (-k with overlapping substrings, --slow, -x); every body writes a "
                "`started` and a `finished` marker file: PASSED/XPASS => both exist, FAILED/XFAIL => not finished, SKIPPED => neither; the "
                "summary counts equal the verdict lines and the exit status is non-zero iff a selected test failed or an xfail passed; "
                "distinct = (body kind, marker, flags)")
    run.assumptions = ["fixtures are not generated (the runner does not wire fixtures into the harness project)"]
    build_repo()
    os.makedirs(SCR, exist_ok=True)
    if replay:
        run.record(eval_case(replay["case"]), replay["case"], key="replay")
        return run.finish()
    run.run_known(eval_case)
    rng = random.Random(seed * 47 + 13)
    n = 14 if quick else 160
    scns = [gen_scenario(random.Random(rng.getrandbits(48))) for _ in range(n)]
    nw = 7
    with mp.Pool(nw) as pool:
        reps = pool.map(run_scenario, [(s, i % nw) for i, s in enumerate(scns)])
    for s, rep in zip(scns, reps):
        v, nchecked = decide(s, rep)
        kinds = set()
        for fn in s["tests"]:
            for t in s["tests"][fn]:
                kinds.add((t["kind"], t["marker"], flags_str(s)))
                run.feature("body." + t["kind"], "marker." + str(t["marker"]))
        run.feature("flags." + flags_str(s))
        if v.status == "held":
            run.evaluations += max(0, nchecked - 1)
            run.held += max(0, nchecked - 1)
            run.distinct.update(kinds)
            run.record(v)
        else:
            run.record(v, s, key=sha(repr(sorted(s["files"].items())))[:10])
    run.sample({"flags": flags_str(scns[0]), "file": list(scns[0]["files"].values())[0][:700]})
    run.extra["scenarios"] = n
    run.min_held = 20
    return run.finish()
