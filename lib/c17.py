"""C17 - a validated newtype can never hold an invalid value; distinct newtypes are not interchangeable."""
import random
import re

import hc
import progs
from common import NCPU, Run, Verdict, build_harness, build_repo, quarantined, sha

UNDER = {
    "int": {"ty": "int", "valid": ["5", "0", "41"], "invalid": ["-1", "-20"], "reject_if": "v < 0", "fmt": "{v}", "fmt0": "{x.0}"},
    "str": {"ty": "str", "valid": ['"ok"', '"a@b"'], "invalid": ['""'], "reject_if": 'len(v) == 0', "fmt": "{v}", "fmt0": "{x.0}"},
    "float": {"ty": "float", "valid": ["1.5", "0.25"], "invalid": ["-2.5"], "reject_if": "v < 0.0", "fmt": "{v}", "fmt0": "{x.0}"},
}
HOOKS = ["from_underlying", "single_from_x", "two_from_x", "none", "from_underlying_plus_from_x", "from_underlying_plus_other_sig", "from_underlying_plus_methods"]


def newtype_decl(name, under, hook):
    u = UNDER[under]
    lines = ["type %s = newtype %s" % (name, u["ty"])]

    def hook_fn(fname):
        return ["    def %s(v: %s) -> Result[%s, str]:" % (fname, u["ty"], name),
                '        println(f"HOOK %s %s")' % (name, u["fmt"]),
                "        if %s:" % u["reject_if"],
                '            return Err("rejected")',
                "        return Ok(%s(v))" % name, ""]

    if hook == "from_underlying":
        lines[0] += ":"
        lines += hook_fn("from_underlying")
    elif hook == "single_from_x":
        lines[0] += ":"
        lines += hook_fn("from_value")
    elif hook == "two_from_x":
        lines[0] += ":"
        lines += hook_fn("from_value") + hook_fn("from_other")
    elif hook == "from_underlying_plus_from_x":
        # `from_underlying` is THE hook by name, however many other from_* constructors of the same shape exist
        alt = ["    def from_offset(v: %s) -> Result[%s, str]:" % (u["ty"], name), '        println("ALT %s")' % name, "        return Ok(%s(v))" % name, ""]
        lines[0] += ":"
        lines += (alt + hook_fn("from_underlying")) if under != "float" else (hook_fn("from_underlying") + alt)
    elif hook == "from_underlying_plus_other_sig":
        other = "str" if u["ty"] != "str" else "int"
        alt = ["    def from_text(t: %s) -> Result[%s, str]:" % (other, name), '        println("ALT %s")' % name, '        return Err("unsupported")', ""]
        lines[0] += ":"
        lines += hook_fn("from_underlying") + alt
    elif hook == "from_underlying_plus_methods":
        lines[0] += ":"
        lines += ["    def describe(self) -> str:", '        return "%s"' % name, ""] + hook_fn("from_underlying") + ["    def fresh_default() -> int:", "        return 1", ""]
    return lines


def has_hook(hook):
    return hook in ("from_underlying", "single_from_x", "from_underlying_plus_from_x", "from_underlying_plus_other_sig", "from_underlying_plus_methods")


# construction sites: name -> (extra top-level decl lines, statements using VALUE) ; every site prints MADE right after constructing
def site_code(site, T, under, value, n):
    u = UNDER[under]
    X = "x%d" % n
    made = 'println(f"MADE %s %s")' % (T, u["fmt0"].replace("x.0", X + ".0"))
    decls, body = [], []
    if site == "let":
        body = ["%s = %s(%s)" % (X, T, value), made]
    elif site == "let_annotated":
        body = ["%s: %s = %s(%s)" % (X, T, T, value), made]
    elif site == "argument":
        decls = ["def take_%d(%s: %s) -> None:" % (n, X, T), "    " + made]
        body = ["take_%d(%s(%s))" % (n, T, value)]
    elif site == "return":
        decls = ["def mk_%d(p: %s) -> %s:" % (n, u["ty"], T), "    return %s(p)" % T]
        body = ["%s = mk_%d(%s)" % (X, n, value), made]
    elif site == "field":
        decls = ["model Holder%d:" % n, "    t: %s" % T, "    k: int"]
        body = ["h%d = Holder%d(t=%s(%s), k=1)" % (n, n, T, value), "%s = h%d.t" % (X, n), made]
    elif site == "list_element":
        body = ["xs%d = [%s(%s)]" % (n, T, value), "for %s in xs%d:" % (X, n), "    " + made]
    elif site == "nested_call":
        decls = ["def ident_%d(q: %s) -> %s:" % (n, T, T), "    return q"]
        body = ["%s = ident_%d(ident_%d(%s(%s)))" % (X, n, n, T, value), made]
    elif site == "other_type_method":
        decls = ["model Factory%d:" % n, "    k: int", "", "    def build(self, p: %s) -> %s:" % (u["ty"], T), "        return %s(p)" % T]
        body = ["f%d = Factory%d(k=1)" % (n, n), "%s = f%d.build(%s)" % (X, n, value), made]
    elif site == "in_if_branch":
        body = ["if 1 < 2:", "    %s = %s(%s)" % (X, T, value), "    " + made]
    elif site == "in_match_arm":
        body = ["match 1:", "    1 =>", "        %s = %s(%s)" % (X, T, value), "        " + made, "    _ =>", "        pass"]
    elif site == "in_loop":
        body = ["for i%d in range(1):" % n, "    %s = %s(%s)" % (X, T, value), "    " + made]
    else:
        raise ValueError(site)
    return decls, body


SITES = ["let", "let_annotated", "argument", "return", "field", "list_element", "nested_call", "other_type_method", "in_if_branch", "in_match_arm", "in_loop"]


def render_value(under, value):
    """How the value appears in HOOK/MADE lines."""
    if under == "str":
        return value.strip('"')
    return value


def build_program(T, under, hook, items, second_type=True):
    """items: [(site, value)]. Returns (text, expected events)."""
    lines = newtype_decl(T, under, hook) + ["", ""]
    if second_type:
        # another newtype whose methods are lowered before the sites (the `inside impl` flag must have been reset)
        lines += ["type Other = newtype int:", "    def from_underlying(v: int) -> Result[Other, str]:", "        return Ok(Other(v))", "", ""]
    decl_all, main = [], []
    events = []
    for n, (site, value) in enumerate(items):
        d, b = site_code(site, T, under, value, n)
        decl_all += d + ["", ""] if d else []
        main += ['println("SITE %d %s")' % (n, site)] + b
        events.append((n, site, value))
    lines += decl_all
    lines += ["def main() -> None:"] + ["    " + l for l in main]
    return "\n".join(lines) + "\n", events


def check_trace(T, under, hook, events, run):
    """Trace monitor over stdout lines + exit status."""
    if run is None or run.get("timeout"):
        return Verdict("inconclusive", "run watchdog")
    out = run["stdout"].split("\n")
    u = UNDER[under]
    pos = 0
    hooked = has_hook(hook)
    for (n, site, value) in events:
        want = "SITE %d %s" % (n, site)
        while pos < len(out) and out[pos] != want:
            if out[pos].startswith(("HOOK", "MADE")):
                return Verdict("violated", "unexpected %s before site %s [%s/%s]" % (out[pos].split()[0], site, hook, under))
            pos += 1
        if pos >= len(out):
            return Verdict("violated", "program stopped before site %s [%s/%s] (exit %s)" % (site, hook, under, run["rc"]))
        pos += 1
        rv = render_value(under, value)
        invalid = value in u["invalid"]
        # collect this site's HOOK/MADE lines up to the next SITE
        seg = []
        while pos < len(out) and not out[pos].startswith("SITE "):
            if out[pos].startswith(("HOOK ", "MADE ")):
                seg.append(out[pos])
            pos += 1
        hooks = [l for l in seg if l.startswith("HOOK %s " % T)]
        mades = [l for l in seg if l.startswith("MADE %s " % T)]
        if hooked:
            if len(hooks) != 1:
                return Verdict("violated", "construction at site %s ran the validation hook %d times, expected exactly once [%s/%s]" % (site, len(hooks), hook, under))
            if _num(hooks[0].split(" ", 2)[2]) != _num(rv):
                return Verdict("violated", "hook at site %s saw %r, the constructed value is %r" % (site, hooks[0].split(" ", 2)[2], rv))
            if invalid:
                if mades:
                    return Verdict("violated", "site %s produced a %s although the hook rejected the value [%s/%s]" % (site, "T", hook, under))
                if run["rc"] != 101 or "validated newtype construction failed" not in run["stderr"]:
                    return Verdict("violated", "rejected construction at site %s did not stop the program with the validation failure (exit %s) [%s/%s]" % (site, run["rc"], hook, under))
                return Verdict("held")
            if seg.index(hooks[0]) > seg.index(mades[0]) if mades else False:
                return Verdict("violated", "MADE before HOOK at site %s" % site)
        else:
            if hooks:
                return Verdict("violated", "a hook ran at site %s although the declaration defines no validation hook [%s/%s]" % (site, hook, under))
        if len(mades) != 1:
            return Verdict("violated", "site %s: expected one constructed value, saw %d [%s/%s]" % (site, len(mades), hook, under))
        if _num(mades[0].split(" ", 2)[2]) != _num(rv):
            return Verdict("violated", "site %s holds %r, constructed from %r" % (site, mades[0].split(" ", 2)[2], rv))
    if run["rc"] != 0:
        return Verdict("violated", "program with only accepted values exits %s [%s/%s]" % (run["rc"], hook, under))
    return Verdict("held")


def _num(s):
    try:
        return float(s)
    except ValueError:
        return s


MIX_POS = {
    "let_annotation": ["a: A = B(%s)"],
    "argument": ["take_a(B(%s))"],
    "return": None,
    "field": ["h = HoldA(t=B(%s))"],
    "list_element": ["xs: List[A] = [B(%s)]"],
    "reassign": ["mut a = A(%s)", "a = B(%s)"],
}


def mixing_programs():
    out = []
    for under, u in UNDER.items():
        v = u["valid"][0]
        head = ("type A = newtype %s\ntype B = newtype %s\n\n\ndef take_a(x: A) -> None:\n    pass\n\n\nmodel HoldA:\n    t: A\n\n\n" % (u["ty"], u["ty"]))
        for pos, stm in MIX_POS.items():
            if pos == "return":
                bad = head + "def mk() -> A:\n    return B(%s)\n" % v
                good = head + "def mk() -> A:\n    return A(%s)\n" % v
            else:
                bad = head + "def h() -> None:\n" + "".join("    " + (s % v) + "\n" for s in stm)
                good = bad.replace("B(", "A(")
            out.append({"kind": "mix", "pos": pos, "under": under, "bad": bad, "good": good})
    return out


def eval_case(case):
    if case.get("kind") == "mix":
        r = hc.run_requests([{"op": "check", "src": case["bad"]}, {"op": "check", "src": case["good"]}], nproc=1)
        return decide_mix(case, r[0], r[1])
    text, events = build_program(case["T"], case["under"], case["hook"], [tuple(x) for x in case["items"]])
    res = progs.run_jobs([{"name": "nt", "files": {"nt.incn": text}, "entry": "nt.incn", "check": True, "run": True}], 1)[0]
    return decide_prog(case, text, events, res)


def decide_mix(case, bad, good):
    if not good.get("ok"):
        return Verdict("inconclusive", "precondition: the same-newtype twin is rejected (%s)" % ((good.get("errors") or [{}])[0].get("msg", "")[:60]))
    if bad.get("ok"):
        return Verdict("violated", "two newtypes over %s are interchangeable at position %s" % (case["under"], case["pos"]))
    return Verdict("held")


def decide_prog(case, text, events, res):
    ck, b = res["check"], res["build"]
    if ck is None or ck.get("rc") != 0:
        import casecheck
        return Verdict("inconclusive", "precondition: --check rejects the program: %s" % casecheck._check_sig(ck))
    if b is None or b.get("rc") != 0:
        import casecheck
        return Verdict("inconclusive", "program does not build (C02 territory): %s" % casecheck.first_rustc_error((b or {}).get("stderr", "")))
    return check_trace(case["T"], case["under"], case["hook"], events, res["run"])


def main(tier, seed, replay=None):
    run = Run("C17", tier, seed)
    quick = tier == "quick"
    run.rule = ("trace monitor: generated programs declare a newtype (hook shapes: from_underlying | a single from_* | two from_* (no hook "
                "by the documented rule) | none) over int/str/float; the hook prints `HOOK T v`, every construction site prints `MADE T v` "
                "right after constructing; sites = let, annotated let, argument, return, field, list element, nested call, another type's "
                "method, if/match/loop bodies, all after another newtype's methods were lowered; the checker requires exactly one HOOK per "
                "MADE with the same value, no MADE after a rejecting HOOK, and exit 101 with the validation failure for rejected values; "
                "nominal typing: mixing two newtypes over the same underlying type must be rejected in 6 positions; one evaluation = one "
                "construction site executed or one mixing verdict; distinct = (hook shape, underlying, site, valid/invalid)")
    run.assumptions = ["constructions inside the type's own methods are exempt (they are the raw constructor)"]
    build_repo()
    build_harness()
    if replay:
        run.record(eval_case(replay["case"]), replay["case"], key="replay")
        return run.finish()
    run.run_known(eval_case)
    avoid = quarantined("C17")
    rng = random.Random(seed * 53 + 17)
    cases = []
    for hook in HOOKS:
        for under in UNDER:
            u = UNDER[under]
            sites = [s for s in SITES if ("site." + s) not in avoid]
            # all sites with valid values in one program
            items = [(s, rng.choice(u["valid"])) for s in sites]
            cases.append({"T": "Checked", "under": under, "hook": hook, "items": items})
            if has_hook(hook):
                pick = sites if not quick else rng.sample(sites, 3)
                for s in pick:
                    pre = [(x, rng.choice(u["valid"])) for x in rng.sample(sites, 2)]
                    cases.append({"T": "Checked", "under": under, "hook": hook, "items": pre + [(s, rng.choice(u["invalid"]))]})
    jobs, metas = [], []
    for c in cases:
        text, events = build_program(c["T"], c["under"], c["hook"], c["items"])
        jobs.append({"name": "nt", "files": {"nt.incn": text}, "entry": "nt.incn", "check": True, "run": True})
        metas.append((c, text, events))
    res = progs.run_jobs(jobs, 8)
    for (c, text, events), r in zip(metas, res):
        v = decide_prog(c, text, events, r)
        n = len(events)
        keys = [(c["hook"], c["under"], s, "invalid" if val in UNDER[c["under"]]["invalid"] else "valid") for (_, s, val) in events]
        for k in keys:
            run.feature("hook." + k[0], "site." + k[2])
        if v.status == "held":
            run.evaluations += n - 1
            run.held += n - 1
            run.distinct.update(keys)
            run.record(v)
        else:
            run.record(v, dict(c, src=text), key=sha(text)[:10])
    mixes = [m for m in mixing_programs() if ("mix." + m["pos"]) not in avoid]
    rep = hc.run_requests([x for m in mixes for x in ({"op": "check", "src": m["bad"]}, {"op": "check", "src": m["good"]})], nproc=NCPU)
    for i, m in enumerate(mixes):
        v = decide_mix(m, rep[2 * i], rep[2 * i + 1])
        run.feature("mix." + m["pos"])
        run.record(v, m, key=("mix", m["pos"], m["under"]))
    run.sample(metas[0][1][:900])
    run.extra["programs"] = len(cases)
    run.min_held = 40
    return run.finish()
