"""C18 - the language server converges to the latest document text: client-boundary histories under explored handler
interleavings, checked offline against a sequential model ("the last notification sent for a document wins")."""
import itertools
import json
import os
import random
import re
import shutil

import hc
from common import BUILD, NCPU, Run, Verdict, build_harness, sha

POINTS = ["before_deps", "before_store", "before_publish"]
WS = os.path.join(BUILD, "scratch", "c18ws")


def uri_of(d):
    return "file://%s/d%d.incn" % (WS, d)


def text_of(d, v, kind, nonce):
    """Unambiguous texts: every (document, version) carries its own nonce in a function name and in an unknown symbol."""
    tag = "d%d_v%d_%s" % (d, v, nonce)
    if kind == "ok":
        return "def f_%s() -> int:\n    return undefined_%s\n" % (tag, tag)
    if kind == "lexerr":
        return "def f_%s() -> int:\n    return \"unterminated_%s\n" % (tag, tag)
    if kind == "parseerr":
        return "def f_%s( -> int:\n    return undefined_%s\n" % (tag, tag)
    if kind == "import":
        return "from dep_mod import helper\n\n\ndef f_%s() -> int:\n    return undefined_%s\n" % (tag, tag)
    if kind == "import_bad":
        return "from dep_bad import helper\n\n\ndef f_%s() -> int:\n    return undefined_%s\n" % (tag, tag)
    raise ValueError(kind)


def setup_ws():
    os.makedirs(WS, exist_ok=True)
    with open(os.path.join(WS, "dep_mod.incn"), "w") as f:
        f.write("pub def helper() -> int:\n    return 1\n")
    with open(os.path.join(WS, "dep_bad.incn"), "w") as f:
        f.write("pub def helper( -> int:\n    return 1\n")


def gen_history(r, ndocs, nev, kinds):
    """A burst over ndocs documents. Returns (events, model) where model[d] = (kind, version, nonce) | None (closed/never opened)."""
    events = []
    state = {}  # d -> ("open", version) | "closed"
    ver = {}
    latest = {}
    nonce = "%04x" % r.getrandbits(16)
    for _ in range(nev):
        d = r.randrange(ndocs)
        st = state.get(d)
        if st is None or st == "closed":
            ver[d] = ver.get(d, 0) + 1
            k = r.choice(kinds)
            events.append({"type": "open", "uri": uri_of(d), "doc": d, "version": ver[d], "kind": k, "text": text_of(d, ver[d], k, nonce)})
            state[d] = "open"
            latest[d] = (k, ver[d])
        else:
            if r.random() < 0.2:
                events.append({"type": "close", "uri": uri_of(d), "doc": d})
                state[d] = "closed"
                latest[d] = None
            else:
                ver[d] += 1
                k = r.choice(kinds)
                events.append({"type": "change", "uri": uri_of(d), "doc": d, "version": ver[d], "kind": k, "text": text_of(d, ver[d], k, nonce)})
                latest[d] = (k, ver[d])
    return events, latest, nonce


def extra_publishes(events):
    """Each analysis of an `import` text also publishes (empty) diagnostics for the dependency; bad deps publish errors."""
    n = 0
    for e in events:
        if e.get("kind") in ("import", "import_bad"):
            n += 1
    return n


def make_request(events, delays, docs, backpressure=0):
    probes = []
    for d in docs:
        probes.append({"type": "hover", "uri": uri_of(d), "line": 0 if True else 0, "character": 5})
        probes.append({"type": "hover", "uri": uri_of(d), "line": 3, "character": 5})
        probes.append({"type": "definition", "uri": uri_of(d), "line": 0, "character": 5})
        probes.append({"type": "completion", "uri": uri_of(d), "line": 0, "character": 0})
    evs = [{k: v for k, v in e.items() if k in ("type", "uri", "version", "text")} for e in events]
    return {"op": "lsp", "delays": delays, "backpressure_ms": backpressure,
            "phases": [{"events": evs, "extra_publishes": extra_publishes(events), "probes": probes}]}


NONCE_RE = re.compile(r"d(\d+)_v(\d+)_([0-9a-f]{4})")


def check_history(events, latest, nonce, reply):
    """The offline checker. Returns (violation signature | None, observations dict)."""
    obs = {}
    if "panic" in reply:
        return "server panicked: %s" % reply["panic"][:100], obs
    st = reply["status"]
    if not st["initialized"]:
        return None, {"inconclusive": "initialize not answered"}
    log = reply["log"]
    # index of the quiescence marker
    q = [e["seq"] for e in log if e["msg"].get("method") == "$/verif/quiescent"]
    pe = [e["seq"] for e in log if e["msg"].get("method") == "$/verif/phase_end"]
    if not st["quiescent"]:
        return "no quiescence within 60 virtual seconds (publishes expected for every notification)", obs
    if not st["probes_answered"]:
        return "a probe request was not answered within 60 virtual seconds", obs
    qseq = q[0]
    # R3: every version-tagged publish for (d, v) carries only the nonce of (d, v)
    pubs = [e for e in log if e["dir"] == "s2c" and e["msg"].get("method") == "textDocument/publishDiagnostics"]
    order = []
    for e in pubs:
        p = e["msg"]["params"]
        m = re.search(r"/d(\d+)\.incn$", p["uri"])
        if not m:
            continue
        d = int(m.group(1))
        v = p.get("version")
        order.append((d, v))
        body = json.dumps(p["diagnostics"])
        for (dd, vv, nn) in NONCE_RE.findall(body):
            if nn != nonce:
                continue
            if v is None:
                return "R3: an untagged publish for d%d carries diagnostics of version %s" % (d, vv), obs
            if int(dd) != d or int(vv) != v:
                return "R3: publish tagged (d%d, v%s) carries diagnostics computed from d%s v%s" % (d, v, dd, vv), obs
    obs["publish_order"] = order
    # R3b: the last own publish for (d, latest) reports exactly the expected diagnostic for that text
    for d, lt in latest.items():
        if lt is None:
            continue
        kind, v = lt
        mine = [e for e in pubs if e["msg"]["params"]["uri"] == uri_of(d) and e["msg"]["params"].get("version") == v]
        if not mine:
            return "R3: no diagnostics were published for the latest version v%d of d%d" % (v, d), obs
        body = json.dumps(mine[-1]["msg"]["params"]["diagnostics"])
        tag = "d%d_v%d_%s" % (d, v, nonce)
        if kind in ("ok", "import", "import_bad") and ("undefined_" + tag) not in body:
            return "R3: the last diagnostics for the latest version of d%d do not report its unknown symbol" % d, obs
        if kind in ("lexerr", "parseerr") and body == "[]":
            return "R3: the latest version of d%d does not lex/parse but its diagnostics are empty" % d, obs
    # R4: nothing arrives after the probes were answered
    after = [e for e in log if e["dir"] == "s2c" and pe and e["seq"] > pe[0]]
    if after:
        return "R4: the server sent %s after quiescence" % (after[0]["msg"].get("method") or "a response"), obs
    late_pubs = [e for e in pubs if e["seq"] > qseq]
    if late_pubs:
        return "R4: a publishDiagnostics arrived after quiescence had been declared", obs
    # R1/R2: probe answers
    reqs = {e["msg"]["id"]: e["msg"] for e in log if e["dir"] == "c2s" and "id" in e["msg"] and e["msg"].get("method", "").startswith("textDocument/")}
    seen_versions = {}
    for e in log:
        if e["dir"] != "s2c" or "id" not in e["msg"] or "method" in e["msg"] or e["msg"]["id"] not in reqs:
            continue
        rq = reqs[e["msg"]["id"]]
        uri = rq["params"]["textDocument"]["uri"]
        d = int(re.search(r"/d(\d+)\.incn$", uri).group(1))
        res = e["msg"].get("result")
        body = json.dumps(res)
        found = [(int(dd), int(vv)) for (dd, vv, nn) in NONCE_RE.findall(body) if nn == nonce]
        lt = latest.get(d)
        meth = rq["method"].split("/")[1]
        for (dd, vv) in found:
            seen_versions.setdefault(d, set()).add(vv)
            if lt is None:
                return "R1: %s for closed document d%d still answers from version %d" % (meth, d, vv), obs
            if dd != d or vv != lt[1]:
                return "R1: %s for d%d answers from version %d, the latest sent is %d" % (meth, d, vv, lt[1]), obs
        if lt is None and meth in ("hover", "definition") and res is not None:
            return "R1: %s for closed document d%d is not null" % (meth, d), obs
        if lt is not None and meth == "hover" and rq["params"]["position"]["line"] == (3 if lt[0].startswith("import") else 0):
            if lt[0] in ("ok", "import", "import_bad") and not found:
                return "R2: hover on the latest version of d%d (which parses) does not answer from it" % d, obs
    obs["answered_versions"] = {k: sorted(v) for k, v in seen_versions.items()}
    # store order observed through the hook trace (which handler reached its store point in which order)
    obs["store_order"] = [tuple(t) for t in reply.get("trace", []) if t[0] in ("before_store", "close_before_remove")]
    return None, obs


def delay_vectors_exhaustive(versions, levels):
    """All assignments of a delay level to (point, version) for the given versions."""
    keys = [(p, v) for v in versions for p in POINTS]
    for combo in itertools.product(levels, repeat=len(keys)):
        yield [[k[0], k[1], ms] for k, ms in zip(keys, combo) if ms > 0]


def eval_case(case):
    setup_ws()
    # pinned cases carry the URIs of the checkout they were recorded in: re-anchor them in this checkout's scratch workspace
    case = dict(case, events=[dict(e, uri=uri_of(e["doc"])) for e in case["events"]])
    req = make_request(case["events"], case["delays"], case["docs"], case.get("backpressure", 0))
    rep = hc.run_requests([req], nproc=1, timeout=120)[0]
    if "crash" in rep or "timeout" in rep:
        return Verdict("inconclusive", "harness stalled")
    latest = {int(k): (tuple(v) if v else None) for k, v in case["latest"].items()}
    sig, obs = check_history(case["events"], latest, case["nonce"], rep)
    if obs.get("inconclusive"):
        return Verdict("inconclusive", obs["inconclusive"])
    return Verdict("violated", sig) if sig else Verdict("held")


def main(tier, seed, replay=None):
    run = Run("C18", tier, seed)
    quick = tier == "quick"
    run.rule = ("one evaluation = one burst history (didOpen/didChange/didClose over 1-3 documents, some versions unlexable/unparseable/"
                "importing a sibling module) executed by the real IncanLanguageServer behind tower-lsp's LspService+Server with JSON-RPC "
                "framing over in-memory pipes, on a current-thread tokio runtime with paused time, under a delay vector over the pause "
                "points before_deps/before_store/before_publish/close_before_remove (hook) or client back-pressure; the recorded client-"
                "boundary history is checked offline: R1 no probe answers from a version other than the last sent (nothing after close), "
                "R2 a parseable latest version is what hover answers from, R3 publishes tagged (d, v) carry only (d, v)'s diagnostics and the "
                "latest version's diagnostics are the expected ones, R4 nothing arrives after quiescence; distinct = (event-shape, delay "
                "vector) and separately the distinct handler store orders observed")
    run.assumptions = ["quiescence is decided on logical events (one publish per notification + dependency publishes), with a 60 s virtual-time watchdog",
                       "pause points only delay at existing awaits of the server (cooperative single-task scheduling in tower-lsp)"]
    build_harness()
    setup_ws()
    if replay:
        run.record(eval_case(replay["case"]), replay["case"], key="replay")
        return run.finish()
    run.run_known(eval_case)
    rng = random.Random(seed * 29 + 3)
    cases = []
    # (a) exhaustive delay vectors for short bursts on one document
    levels = [0, 1, 2] if quick else [0, 1, 2, 3]
    shapes = [["ok", "ok"], ["ok", "parseerr"], ["parseerr", "ok"], ["ok", "ok", "close"], ["import", "ok"]]
    if not quick:
        shapes += [["ok", "lexerr"], ["ok", "ok", "ok"], ["ok", "close", "ok"], ["import_bad", "ok"], ["ok", "import"]]
    for shape in shapes:
        r = random.Random(rng.getrandbits(32))
        nonce = "%04x" % r.getrandbits(16)
        events, latest, v = [], {}, 0
        opened = False
        for k in shape:
            if k == "close":
                events.append({"type": "close", "uri": uri_of(0), "doc": 0})
                latest[0] = None
                opened = False
            else:
                v += 1
                events.append({"type": "change" if opened else "open", "uri": uri_of(0), "doc": 0, "version": v, "kind": k, "text": text_of(0, v, k, nonce)})
                latest[0] = (k, v)
                opened = True
        versions = [e["version"] for e in events if "version" in e]
        vectors = list(delay_vectors_exhaustive(versions[:2] if len(versions) > 2 and quick else versions, levels))
        if len(vectors) > (800 if quick else 6000):
            vectors = r.sample(vectors, 800 if quick else 6000)
        for dv in vectors:
            extra = [["close_before_remove", -1, r.choice(levels)]] if any(e["type"] == "close" for e in events) else []
            cases.append({"events": events, "latest": {0: latest[0]}, "nonce": nonce, "delays": dv + extra, "docs": [0], "class": "exh:" + ",".join(shape)})
    # (b) random longer bursts over 1-3 documents with random delays
    nrand = 400 if quick else 20000
    for _ in range(nrand):
        r = random.Random(rng.getrandbits(48))
        nd = r.randint(1, 3)
        events, latest, nonce = gen_history(r, nd, r.randint(3, 12), ["ok", "ok", "ok", "parseerr", "lexerr", "import", "import_bad"])
        delays = []
        for e in events:
            if "version" in e:
                for p in POINTS:
                    if r.random() < 0.5:
                        delays.append([p, e["version"], r.choice([1, 2, 3, 5, 8])])
        if r.random() < 0.5:
            delays.append(["close_before_remove", -1, r.choice([1, 2, 4])])
        cases.append({"events": events, "latest": {d: latest.get(d) for d in range(nd) if d in latest}, "nonce": nonce, "delays": delays,
                      "docs": [d for d in range(nd) if d in latest], "class": "rand", "backpressure": r.choice([0, 0, 0, 1, 3])})
    reqs = [make_request(c["events"], c["delays"], c["docs"], c.get("backpressure", 0)) for c in cases]
    reps = hc.run_requests(reqs, nproc=NCPU, shard=60, timeout=120)
    store_orders = set()
    answered = set()
    for c, rep in zip(cases, reps):
        if "crash" in rep or "timeout" in rep or "error" in rep:
            run.record(Verdict("inconclusive", "harness stalled or crashed on a history"))
            continue
        if not rep.get("hooks"):
            run.record(Verdict("inconclusive", "harness built without the incan_verif hook"))
            continue
        sig, obs = check_history(c["events"], c["latest"], c["nonce"], rep)
        if obs.get("inconclusive"):
            run.record(Verdict("inconclusive", obs["inconclusive"]))
            continue
        so = tuple(obs.get("store_order", []))
        store_orders.add((c["class"], so))
        for d, vs in obs.get("answered_versions", {}).items():
            answered.update(vs)
        shape = ",".join("%s%s" % (e["type"][0], e.get("kind", "")[:1]) for e in c["events"])
        key = (shape, sha(json.dumps(c["delays"]))[:10], c.get("backpressure", 0))
        case = dict(c, latest={str(k): (list(v) if v else None) for k, v in c["latest"].items()})
        run.feature("class." + c["class"].split(":")[0])
        run.record(Verdict("violated", sig) if sig else Verdict("held"), case, key=key)
    run.extra["distinct_store_orders_observed"] = len(store_orders)
    run.extra["histories"] = len(cases)
    if cases:
        c = cases[0]
        run.sample({"events": [{k: v for k, v in e.items() if k != "text"} for e in c["events"]], "delays": c["delays"]})
        c = cases[-1]
        run.sample({"events": [{k: v for k, v in e.items() if k != "text"} for e in c["events"]], "delays": c["delays"], "backpressure_ms": c.get("backpressure", 0)})
    if len(store_orders) < 6 and not run.violations:
        run.record(Verdict("inconclusive", "fewer than 6 distinct handler store orders were observed: the schedules did not reorder handlers"), count=max(1, run.evaluations))
    run.min_held = 300
    shutil.rmtree(WS, ignore_errors=True)
    return run.finish()
