"""C19 - offsets <-> editor positions: exhaustive small documents (oracle in the harness: an independent prefix counter)
plus random documents checked by a second, Python-side oracle over the raw conversion tables, plus the terminal renderer."""
import random

import hc
from common import NCPU, Run, Verdict, build_harness, load_known

ALPHA = ["a", "é", "𝄞", "\n", "\r", " "]


def py_ref(doc, o):
    """(line, col) of byte offset o (a char boundary) by counting in doc[:o]."""
    prefix = doc.encode("utf-8")[:o].decode("utf-8")
    line = prefix.count("\n")
    col = len(prefix) - (prefix.rfind("\n") + 1)
    return line, col


def check_tables(doc, rep):
    """Oracle over a pos_doc reply. Returns list of problem strings."""
    if "panic" in rep:
        return ["panic: %s" % rep["panic"]]
    bad = []
    prev = None
    lens = [len(l) for l in doc.split("\n")]
    for o, l, c, back in rep["table"]:
        exp = py_ref(doc, o)
        if (l, c) != exp:
            bad.append("offset_to_position(%d)=(%d,%d) expected %r" % (o, l, c, exp))
        if back != o:
            bad.append("round trip of offset %d gives %r" % (o, back))
        if prev is not None and not (prev < (l, c)):
            bad.append("positions not strictly increasing at offset %d" % o)
        prev = (l, c)
    for a, b, sl, sc, el, ec in rep["spans"]:
        if (sl, sc) > (el, ec):
            bad.append("span_to_range(%d,%d): start after end" % (a, b))
        for (l, c) in ((sl, sc), (el, ec)):
            if not (l < len(lens) and c <= lens[l]):
                bad.append("span_to_range(%d,%d): position (%d,%d) outside the document" % (a, b, l, c))
    return bad


def rand_doc(r):
    n = r.choice([0, 1, 5, 30, 200, 1000, 2000])
    k = r.random()
    alpha = ALPHA + ["\r\n", "\n\n", "x", "def f():", "\t", " ", "ß", "€"]
    if k < 0.2:
        alpha = ["\n", "\r\n", "\n\n"]
    doc = "".join(r.choice(alpha) for _ in range(n))
    if r.random() < 0.5 and doc.endswith("\n"):
        doc = doc.rstrip("\n")
    return doc


def term_check(doc, rep):
    bad = []
    b = doc.encode("utf-8")
    for res in rep["results"]:
        if "panic" in res:
            bad.append("format_error panicked at offset %d: %s" % (res["offset"], res["panic"]))
            continue
        if res.get("missing"):
            bad.append("no location line for offset %d" % res["offset"])
            continue
        o = min(res["offset"], len(b))
        l, c = py_ref(doc, o)
        if (res["line"], res["col"]) != (l + 1, c + 1):
            bad.append("terminal location for offset %d is %s:%s, counting gives %d:%d" % (o, res["line"], res["col"], l + 1, c + 1))
    return bad


def eval_case(case):
    kind = case["kind"]
    if kind == "exh":
        r = hc.run_requests([dict(case["req"], op="pos_exh")], nproc=1, timeout=600)[0]
        if r.get("violations"):
            return Verdict("violated", r["violations"][0][:160])
        return Verdict("held")
    if kind == "doc":
        r = hc.run_requests([{"op": "pos_doc", "doc": case["doc"], "spans": case.get("spans", [])}], nproc=1)[0]
        bad = check_tables(case["doc"], r)
        return Verdict("violated", bad[0]) if bad else Verdict("held")
    r = hc.run_requests([{"op": "term_pos", "doc": case["doc"], "offsets": case["offsets"]}], nproc=1)[0]
    bad = term_check(case["doc"], r)
    return Verdict("violated", "terminal: " + _norm(bad[0])) if bad else Verdict("held")


def _norm(s):
    import re
    return re.sub(r"\d+", "N", s)


def main(tier, seed, replay=None):
    run = Run("C19", tier, seed)
    quick = tier == "quick"
    maxlen = 6 if quick else 7
    run.rule = ("exhaustive part: every document over the alphabet {a, é(2B), 𝄞(4B), LF, CR, space} up to length %d x every char-boundary "
                "offset (offset_to_position vs an independent prefix counter, round trip, strict monotonicity) and, up to length 4, every "
                "span pair 0..len+2 x 0..len+2 through span_to_range (start<=end, inside the document); random part: documents up to 2000 "
                "chars checked by a second oracle in Python over the raw tables; terminal part: the line:col printed by format_error; "
                "one evaluation = one (document, offset) or (document, span) conversion; non-trivial = document has a multi-byte char or a line break"
                % maxlen)
    run.assumptions = ["'character' = Unicode scalar value (the code counts chars, the property says characters)",
                       "LF is the only line terminator for line counting (CR is an ordinary character), as in the implementation's documented behaviour"]
    build_harness()
    if replay:
        run.record(eval_case(replay["case"]), replay["case"], key="replay")
        return run.finish()
    run.run_known(eval_case)
    nsh = 32
    reqs = [{"op": "pos_exh", "alphabet": ALPHA, "maxlen": maxlen, "span_maxlen": 4, "shard": k, "nshards": nsh} for k in range(nsh)]
    res = hc.run_requests(reqs, nproc=NCPU, shard=1, timeout=1800)
    docs = 0
    for q, r in zip(reqs, res):
        if "crash" in r or "timeout" in r or "error" in r:
            run.record(Verdict("inconclusive", "exhaustive shard did not complete: %r" % (r,)))
            continue
        docs += r["docs"]
        n = r["evaluations"]
        if r["violations"]:
            for v in r["violations"][:3]:
                run.record(Verdict("violated", _norm(v)[:160], {"example": v}), {"kind": "exh", "req": {k: q[k] for k in q if k != "op"}})
            n -= min(3, len(r["violations"]))
        run.evaluations += n
        run.held += n
        run.extra["nontrivial_docs_exhaustive"] = run.extra.get("nontrivial_docs_exhaustive", 0) + r["nontrivial_docs"]
    run.extra["exhaustive"] = True
    run.extra["exhaustive_bound"] = "documents over 6 symbols up to length %d (%d documents), spans up to document length 4" % (maxlen, docs)
    run.extra["documents_exhaustive"] = docs
    # random documents with the Python oracle
    rng = random.Random(seed * 19 + 7)
    nd = 300 if quick else 20000
    dreqs, ddocs = [], []
    for _ in range(nd):
        d = rand_doc(rng)
        bl = len(d.encode("utf-8"))
        spans = [[rng.randint(0, bl + 3), rng.randint(0, bl + 3)] for _ in range(30)]
        ddocs.append(d)
        dreqs.append({"op": "pos_doc", "doc": d, "spans": spans})
    for d, q, r in zip(ddocs, dreqs, hc.run_requests(dreqs, nproc=NCPU, shard=50, timeout=120)):
        if "crash" in r or "timeout" in r:
            run.record(Verdict("inconclusive", "harness stalled on a random document"))
            continue
        bad = check_tables(d, r)
        n = len(r.get("table", [])) + len(r.get("spans", []))
        if bad:
            run.record(Verdict("violated", _norm(bad[0])), {"kind": "doc", "doc": d, "spans": q["spans"]})
        else:
            run.evaluations += n
            run.held += n
            if "\n" in d or len(d) != len(d.encode("utf-8")):
                run.distinct.add(("doc", hash(d)))
    # terminal renderer
    treqs, tdocs = [], []
    small = ["".join(t) for t in __import__("itertools").product(ALPHA, repeat=3)] + [rand_doc(rng)[:200] for _ in range(100 if quick else 3000)]
    for d in small:
        b = d.encode("utf-8")
        offs = list(range(len(b) + 1)) if len(b) < 40 else sorted(set(rng.randint(0, len(b)) for _ in range(20)))
        offs = [o for o in offs if o >= len(b) or (b[o] & 0xC0) != 0x80]
        tdocs.append(d)
        treqs.append({"op": "term_pos", "doc": d, "offsets": offs})
    for d, q, r in zip(tdocs, treqs, hc.run_requests(treqs, nproc=NCPU, shard=100, timeout=120)):
        if "crash" in r or "timeout" in r:
            run.record(Verdict("inconclusive", "harness stalled on a terminal case"))
            continue
        bad = term_check(d, r)
        if bad:
            run.record(Verdict("violated", "terminal: " + _norm(bad[0]), {"all": bad[:5]}), {"kind": "term", "doc": d, "offsets": q["offsets"]},
                       key=("term", hash(d)))
        else:
            run.evaluations += len(q["offsets"])
            run.held += len(q["offsets"])
            if "\n" in d or len(d) != len(d.encode("utf-8")):
                run.distinct.add(("term", hash(d)))
    run.distinct.update(("exh", i) for i in range(min(run.extra.get("nontrivial_docs_exhaustive", 0), 2000000)))
    run.sample({"doc": "a\né𝄞", "offset": 4, "position": [1, 1]})
    run.sample({"doc": ddocs[1][:60] if len(ddocs) > 1 else "", "spans_checked": 30})
    run.min_held = 10000
    return run.finish()
