"""C20 - derived JSON, equality, ordering and hashing are structural and round-trip (Python json / tuple semantics as oracle)."""
import json
import math
import random

import progs
from common import Run, Verdict, build_repo, quarantined, sha
from incanref import q

I64_MIN, I64_MAX = -(2 ** 63), 2 ** 63 - 1
STRS = ["", "a", "hello world", 'quo"te', "back\\slash", "new\nline", "tab\there", "é€", "𝄞 clef", "{json: \"like\"}", "  ", "ünï", "a/b", "null", "true"]
INTS = [0, 1, -1, 7, -42, 2 ** 31, -(2 ** 31), 2 ** 53 + 1, I64_MAX, I64_MIN + 1, 1000000]
FLOATS = [0.5, -1.25, 3.0, 100.125, 1e10, -0.75, 2.5e-3]

FIELD_TYPES = ["int", "str", "bool", "float", "list_int", "list_str", "dict_str_int", "opt_int", "opt_str", "nested"]


def ty_text(t, nested_name):
    return {"int": "int", "str": "str", "bool": "bool", "float": "float", "list_int": "List[int]", "list_str": "List[str]",
            "dict_str_int": "Dict[str, int]", "opt_int": "Option[int]", "opt_str": "Option[str]", "nested": nested_name}[t]


def gen_value(r, t):
    if t == "int":
        return r.choice(INTS)
    if t == "str":
        return r.choice(STRS)
    if t == "bool":
        return r.random() < 0.5
    if t == "float":
        return r.choice(FLOATS)
    if t == "list_int":
        return [r.choice(INTS) for _ in range(r.randint(0, 3))]
    if t == "list_str":
        return [r.choice(STRS) for _ in range(r.randint(0, 2))]
    if t == "dict_str_int":
        return {k: r.choice(INTS) for k in r.sample(["k", "a b", "é", "z\"q"], r.randint(0, 2))}
    if t == "opt_int":
        return r.choice([None, r.choice(INTS)])
    if t == "opt_str":
        return r.choice([None, r.choice(STRS)])
    if t == "nested":
        return {"n": r.choice(INTS), "label": r.choice(STRS)}
    raise ValueError(t)


def lit(t, v, nested_name):
    if t == "int":
        return str(v) if v >= 0 else "-%d" % (-v)
    if t == "str":
        return q(v)
    if t == "bool":
        return "true" if v else "false"
    if t == "float":
        r = repr(float(v))
        if "e" in r:
            r = ("%.10f" % v).rstrip("0")
            r = r + "0" if r.endswith(".") else r
        return r
    if t == "list_int":
        return "[" + ", ".join(lit("int", x, None) for x in v) + "]"
    if t == "list_str":
        return "[" + ", ".join(q(x) for x in v) + "]"
    if t == "dict_str_int":
        return "{" + ", ".join("%s: %s" % (q(k), lit("int", x, None)) for k, x in v.items()) + "}"
    if t == "opt_int":
        return "None" if v is None else "Some(%s)" % lit("int", v, None)
    if t == "opt_str":
        return "None" if v is None else "Some(%s)" % q(v)
    if t == "nested":
        return "%s(n=%s, label=%s)" % (nested_name, lit("int", v["n"], None), q(v["label"]))
    raise ValueError(t)


def json_equal(exp, got, t):
    if t == "float":
        return isinstance(got, (int, float)) and not isinstance(got, bool) and (float(got) == exp or abs(float(got) - exp) <= 1e-12 * max(1.0, abs(exp)))
    if t == "int":
        return isinstance(got, int) and not isinstance(got, bool) and got == exp
    if t == "bool":
        return isinstance(got, bool) and got == exp
    if t == "str":
        return isinstance(got, str) and got == exp
    if t == "list_int":
        return isinstance(got, list) and len(got) == len(exp) and all(json_equal(a, b, "int") for a, b in zip(exp, got))
    if t == "list_str":
        return isinstance(got, list) and got == exp
    if t == "dict_str_int":
        return isinstance(got, dict) and got == exp and all(isinstance(x, int) and not isinstance(x, bool) for x in got.values())
    if t == "opt_int":
        return got is None if exp is None else json_equal(exp, got, "int")
    if t == "opt_str":
        return got is None if exp is None else json_equal(exp, got, "str")
    if t == "nested":
        return isinstance(got, dict) and set(got) == {"n", "label"} and json_equal(exp["n"], got["n"], "int") and json_equal(exp["label"], got["label"], "str")
    raise ValueError(t)


def ord_key(t, v):
    """Sort key for lexicographic comparison of one field (only for field types whose ordering is documented/structural)."""
    if t in ("int", "str", "bool"):
        return v
    if t in ("list_int", "list_str"):
        return tuple(v)
    if t == "nested":
        return (v["n"], v["label"])
    raise ValueError(t)


def gen_decl(r, kind_choice=None, avoid=()):
    nf = r.randint(1, 6) if r.random() < 0.5 else r.randint(3, 6)
    fields = []
    ftypes = [t for t in FIELD_TYPES if ("field." + t) not in avoid]
    if r.random() < 0.5:
        # half of the declarations are fully orderable/hashable, so that the derived Ord / Hash are exercised on wide records too
        ftypes = [t for t in ftypes if t in ("int", "str", "bool", "list_int", "list_str", "nested")] or ftypes
    # field names: plain ones, and legal identifiers a serialiser might be tempted to treat specially (trailing/leading underscore,
    # Rust keywords spelt with an underscore, upper case, digits) - the JSON keys must be exactly the declared names
    odd = ["type_", "from_", "id_", "_hidden", "kind", "Value", "x1_y2", "self_", "match_", "a__b", "json", "key"]
    r.shuffle(odd)
    for i in range(nf):
        fname = odd.pop() if r.random() < 0.35 else "f%d" % i
        fields.append((fname, r.choice(ftypes)))
    has_float = any(t == "float" for _, t in fields)
    has_dict = any(t == "dict_str_int" for _, t in fields)
    has_opt = any(t.startswith("opt") for _, t in fields)
    derives = ["Debug", "Clone", "Serialize", "Deserialize", "Eq"] if not has_float else ["Debug", "Clone", "Serialize", "Deserialize"]
    can_ord = not has_float and not has_dict and not has_opt
    can_hash = not has_float and not has_dict
    if can_ord:
        derives.append("Ord")
    if can_hash:
        derives.append("Hash")
    r.shuffle(derives)
    kind = kind_choice or r.choice(["model", "class"])
    no_rt = False
    if kind == "class" and "class.from_json" in avoid:
        no_rt = True  # `Class.from_json(...)` does not build on this tree (open finding of C02): classes are checked without the round trip
    defaults = {}
    if r.random() < 0.45:
        # trailing fields may carry defaults - including `= None` for options and `= []` for lists
        for fn, ft in reversed(fields):
            if ft in ("int", "str", "bool"):
                defaults[fn] = gen_value(r, ft)
            elif ft in ("opt_int", "opt_str"):
                # `= None`, or a default that is not None (then an explicit None argument must still mean None)
                defaults[fn] = None if r.random() < 0.5 else (7 if ft == "opt_int" else "anon")
            elif ft in ("list_int", "list_str"):
                defaults[fn] = []
            else:
                break
            if r.random() < 0.5:
                break
    levels = None
    if kind == "class" and len(fields) >= 2 and "class.extends" not in avoid and r.random() < 0.6:
        # a class hierarchy: the declared field order is ancestors first
        n = 3 if len(fields) >= 3 and r.random() < 0.6 else 2
        cuts = sorted(r.sample(range(1, len(fields)), n - 1))
        levels = [fields[a:b] for a, b in zip([0] + cuts, cuts + [len(fields)])]
    return {"kind": kind, "name": "Rec", "fields": fields, "derives": derives, "can_ord": can_ord, "can_hash": can_hash, "has_float": has_float, "defaults": defaults,
            "levels": levels, "no_rt": no_rt}


def ctor(decl, vals):
    args = []
    for fn, ft in decl["fields"]:
        if fn in decl["defaults"] and vals[fn] == decl["defaults"][fn] and len(args) % 2 == 0:
            continue  # rely on the default
        args.append("%s=%s" % (fn, lit(ft, vals[fn], "Inner")))
    return "%s(%s)" % (decl["name"], ", ".join(args))


def build_program(r, decl, nvals):
    needs_nested = any(t == "nested" for _, t in decl["fields"])
    L = []
    if needs_nested:
        inner_ders = [d for d in decl["derives"]]
        L += ["@derive(%s)" % ", ".join(inner_ders), "model Inner:", "    n: int", "    label: str", "", ""]
    levels = decl.get("levels") or [decl["fields"]]
    for li, lf in enumerate(levels):
        last = li == len(levels) - 1
        name = decl["name"] if last else "Base%d" % li
        ext = " extends Base%d" % (li - 1) if li > 0 else ""
        L += ["@derive(%s)" % ", ".join(decl["derives"]), "%s %s%s:" % (decl["kind"], name, ext)]
        for fn, ft in lf:
            d = (" = " + lit(ft, decl["defaults"][fn], "Inner")) if fn in decl["defaults"] else ""
            L.append("    %s: %s%s" % (fn, ty_text(ft, "Inner"), d))
        L += ["", ""]
    vals = [{fn: gen_value(r, ft) for fn, ft in decl["fields"]} for _ in range(nvals)]
    for fn in decl["defaults"]:
        vals[0][fn] = decl["defaults"][fn]
    # pairs differing in exactly one field (for == / <) and an independently built equal twin (for hashing)
    pairs = []
    for k in range(min(4, len(decl["fields"]) + 1)):
        a = dict(vals[k % nvals])
        b = dict(a)
        if k < len(decl["fields"]):
            fn, ft = decl["fields"][k]
            for _ in range(10):
                nv = gen_value(r, ft)
                if nv != a[fn]:
                    b[fn] = nv
                    break
        pairs.append((a, b))
    # pairs that differ in several fields at once: only these can tell in which order the fields are compared
    for k in range(3):
        a = {fn: gen_value(r, ft) for fn, ft in decl["fields"]}
        b = {fn: gen_value(r, ft) for fn, ft in decl["fields"]}
        pairs.append((a, b))
    main = []
    exp = []
    for i, v in enumerate(vals):
        main.append("v%d = %s" % (i, ctor(decl, v)))
        main.append('println("J%d")' % i)
        main.append("println(json_stringify(v%d))" % i)
        exp.append(("json", i, v))
        if decl.get("no_rt"):
            continue
        main += ["match %s.from_json(json_stringify(v%d)):" % (decl["name"], i), "    Ok(w%d) =>" % i]
        if "Eq" in decl["derives"]:
            main += ["        if w%d == v%d:" % (i, i), '            println("RT%d same")' % i, "        else:", '            println("RT%d differ")' % i]
        else:
            main += ['        println("RT%d same")' % i]
        main += ["    Err(e%d) =>" % i, '        println("RT%d err")' % i]
        exp.append(("rt", i))
    for k, (a, b) in enumerate(pairs):
        main.append("pa%d = %s" % (k, ctor(decl, a)))
        main.append("pb%d = %s" % (k, ctor(decl, b)))
        if "Eq" in decl["derives"]:
            main += ["if pa%d == pb%d:" % (k, k), '    println("EQ%d T")' % k, "else:", '    println("EQ%d F")' % k]
            main += ["if pa%d != pb%d:" % (k, k), '    println("NE%d T")' % k, "else:", '    println("NE%d F")' % k]
            exp.append(("eq", k, a == b))
        if decl["can_ord"]:
            main += ["if pa%d < pb%d:" % (k, k), '    println("LT%d T")' % k, "else:", '    println("LT%d F")' % k]
            main += ["if pa%d >= pb%d:" % (k, k), '    println("GE%d T")' % k, "else:", '    println("GE%d F")' % k]
            ka = tuple(ord_key(t, a[f]) for f, t in decl["fields"])
            kb = tuple(ord_key(t, b[f]) for f, t in decl["fields"])
            exp.append(("lt", k, ka < kb))
        if decl["can_hash"]:
            main += ["mut d%d: Dict[%s, int] = {}" % (k, decl["name"]), "d%d[%s] = 1" % (k, ctor(decl, a)), "d%d[%s] = 2" % (k, ctor(decl, b)),
                     "d%d[%s] = 3" % (k, ctor(decl, a)), 'println("H%d")' % k, "println(len(d%d))" % k]
            exp.append(("hash", k, 1 if a == b else 2))
    L += ["def main() -> None:"] + ["    " + l for l in main]
    return "\n".join(L) + "\n", exp, decl


def check_output(decl, exp, run):
    if run is None or run.get("timeout"):
        return Verdict("inconclusive", "run watchdog"), 0
    if run["rc"] != 0:
        return Verdict("violated", "program exits %s: %s" % (run["rc"], run["stderr"].strip()[-100:])), 0
    out = run["stdout"].split("\n")
    idx = {}
    for n, l in enumerate(out):
        idx.setdefault(l, n)
    nchecked = 0
    for e in exp:
        nchecked += 1
        if e[0] == "json":
            _, i, v = e
            if "J%d" % i not in idx:
                return Verdict("violated", "no JSON line for value %d" % i), nchecked
            text = out[idx["J%d" % i] + 1]
            try:
                got = json.loads(text)
            except ValueError:
                return Verdict("violated", "json_stringify output is not valid JSON: %r" % text[:80]), nchecked
            names = [fn for fn, _ in decl["fields"]]
            if not isinstance(got, dict) or set(got) != set(names):
                return Verdict("violated", "JSON object keys %s differ from the declared fields %s" % (sorted(got) if isinstance(got, dict) else type(got).__name__, names)), nchecked
            for fn, ft in decl["fields"]:
                if not json_equal(v[fn], got[fn], ft):
                    return Verdict("violated", "JSON mapping of a %s field: value %r serialised as %r" % (ft, v[fn], got[fn])), nchecked
        elif e[0] == "rt":
            i = e[1]
            if ("RT%d same" % i) not in idx:
                got = [l for l in out if l.startswith("RT%d " % i)]
                return Verdict("violated", "from_json(json_stringify(v)) is not Ok(v): %s" % (got[0] if got else "no line")), nchecked
        elif e[0] == "eq":
            _, k, same = e
            if ("EQ%d %s" % (k, "T" if same else "F")) not in idx:
                return Verdict("violated", "== on values that %s in one field gives the wrong answer" % ("do not differ" if same else "differ")), nchecked
            if ("NE%d %s" % (k, "F" if same else "T")) not in idx:
                return Verdict("violated", "!= is not the negation of =="), nchecked
        elif e[0] == "lt":
            _, k, lt = e
            if ("LT%d %s" % (k, "T" if lt else "F")) not in idx:
                return Verdict("violated", "< is not lexicographic in declaration order (expected %s)" % lt), nchecked
            if ("GE%d %s" % (k, "F" if lt else "T")) not in idx:
                return Verdict("violated", ">= is not the negation of <"), nchecked
        elif e[0] == "hash":
            _, k, n = e
            if "H%d" % k not in idx or out[idx["H%d" % k] + 1] != str(n):
                return Verdict("violated", "dict keyed by the model holds %s entries after inserting a, b, a; expected %d" % (out[idx["H%d" % k] + 1] if "H%d" % k in idx else "?", n)), nchecked
    return Verdict("held"), nchecked


def eval_case(case):
    r = random.Random(case["seed"])
    decl = gen_decl(r, avoid=set(case.get("avoid", [])))
    text, exp, decl = build_program(r, decl, case["nvals"])
    res = progs.run_jobs([{"name": "dj", "files": {"dj.incn": text}, "entry": "dj.incn", "check": True, "run": True}], 1)[0]
    return decide(text, exp, decl, res)[0]


def decide(text, exp, decl, res):
    import casecheck
    ck, b = res["check"], res["build"]
    if ck is None or ck.get("rc") != 0:
        return Verdict("inconclusive", "precondition: --check rejects the program: %s" % casecheck._check_sig(ck)[:70]), 0
    if b is None or b.get("rc") != 0:
        return Verdict("inconclusive", "program does not build (C02 territory): %s" % casecheck.first_rustc_error((b or {}).get("stderr", ""))[:70]), 0
    return check_output(decl, exp, res["run"])


def main(tier, seed, replay=None):
    run = Run("C20", tier, seed)
    quick = tier == "quick"
    run.rule = ("one evaluation = one (declaration, value or value pair) observation in a compiled program: generated models/classes with 1-6 "
                "fields over int/str/bool/float/List/Dict[str,int]/Option/nested model (with defaults) and all meaningful derive subsets; "
                "values from boundary sets (i64 extremes, empty strings/collections, quotes, backslashes, newlines, non-BMP); printed JSON is "
                "parsed by Python and compared structurally (exact field-name set, documented type mapping); from_json(json_stringify(v)) "
                "== v; == / != on pairs differing in exactly one field; < / >= against tuple comparison in declaration order; equal values "
                "built independently collide as Dict keys; distinct = (field-type multiset, derive set, observation kind)")
    run.assumptions = ["float/Dict/Option fields are excluded from Ord hosts, float/Dict fields from Hash/Eq hosts (not derivable / ordering undocumented)",
                       "`.clone()` on a derived-Clone model is rejected by the type checker on this tree, so clone independence is not observable (reported, not a violation of C20)"]
    build_repo()
    if replay:
        run.record(eval_case(replay["case"]), replay["case"], key="replay")
        return run.finish()
    run.run_known(eval_case)
    rng = random.Random(seed * 59 + 19)
    avoid = quarantined("C20") | quarantined("C02")
    run.extra["quarantined_features"] = sorted(x for x in avoid if x.startswith(("field.", "class.")))
    n = 48 if quick else 900
    jobs, metas = [], []
    for i in range(n):
        s = rng.getrandbits(48)
        r = random.Random(s)
        decl = gen_decl(r, avoid=avoid)
        text, exp, decl = build_program(r, decl, 3)
        jobs.append({"name": "dj", "files": {"dj.incn": text}, "entry": "dj.incn", "check": True, "run": True})
        metas.append((s, text, exp, decl))
    res = progs.run_jobs(jobs, 8)
    for (s, text, exp, decl), r in zip(metas, res):
        v, nchecked = decide(text, exp, decl, r)
        tys = tuple(sorted(t for _, t in decl["fields"]))
        for t in tys:
            run.feature("field." + t)
        run.feature("kind." + decl["kind"])
        if v.status == "held":
            run.evaluations += nchecked - 1
            run.held += nchecked - 1
            for e in exp:
                run.distinct.add((tys, tuple(sorted(decl["derives"])), e[0]))
            run.record(v)
        else:
            run.record(v, {"seed": s, "nvals": 3, "src": text, "avoid": sorted(avoid)}, key=sha(text)[:10])
    run.sample(metas[0][1][:1200])
    run.extra["programs"] = n
    run.min_held = 100
    return run.finish()
