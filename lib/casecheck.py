"""Compile-and-run pipeline for generated *cases* (gprog): batching, reference evaluation, per-case attribution."""
import re

import incanref
import progs
from incanref import Interp, OutOfDomain, compare_output, pp_program


def expected_of(case):
    """Reference behaviour of a case: (lines, panic|None) or raises OutOfDomain."""
    it = Interp(case["decls"])
    return it.run_main(case["entry"])


def program_text(cases):
    decls = []
    for c in cases:
        decls += c["decls"]
    body = []
    for c in cases:
        body.append(("print", ("str", "@@ %s" % c["id"])))
        body.append(("expr", ("call", c["entry"], [])))
    decls = decls + [{"kind": "func", "name": "main", "params": [], "ret": "None", "body": body}]
    return pp_program(decls)


def first_rustc_error(stderr):
    m = re.search(r"(error(\[E\d+\])?: [^\n]+)", stderr)
    if m:
        return re.sub(r"`[^`]*`", "`_`", m.group(1))[:120]
    m = re.search(r"(Code generation error: [^\n]+|Error generating project: [^\n]+)", stderr)
    if m:
        return m.group(1)[:120]
    return (stderr.strip().split("\n") or ["?"])[-1][:120]


def split_segments(stdout):
    seg = {}
    cur = None
    for line in stdout.split("\n"):
        m = re.fullmatch(r"@@ (\S+)", line)
        if m:
            cur = m.group(1)
            seg[cur] = []
        elif cur is not None:
            seg[cur].append(line)
    return seg


def evaluate(cases, batch=8, nproc=8):
    """Returns {case id: result}. result keys: status in {"ok","diff","check_rejected","build_failed","inconclusive"},
    "sig", "exp" (lines, panic), "program" (text of the program that exhibited it)."""
    results = {}
    exp = {}
    normal, panicky = [], []
    for c in cases:
        try:
            lines, panic = expected_of(c)
        except OutOfDomain as e:
            results[c["id"]] = {"status": "inconclusive", "sig": "reference left its domain: %s" % e}
            continue
        except RecursionError:
            results[c["id"]] = {"status": "inconclusive", "sig": "reference recursion"}
            continue
        except (KeyError, ValueError, TypeError, AttributeError, IndexError) as e:
            # the case is not a program of the modelled sub-language (e.g. a reduction candidate that lost a declaration)
            results[c["id"]] = {"status": "inconclusive", "sig": "reference-error: %s: %s" % (type(e).__name__, str(e)[:80])}
            continue
        exp[c["id"]] = (lines, panic)
        (panicky if panic is not None else normal).append(c)
    groups = [normal[i:i + batch] for i in range(0, len(normal), batch)]
    # a panicking case ends the process: it goes last in a group of its own small batch
    pi = 0
    for g in groups:
        if pi < len(panicky):
            g.append(panicky[pi])
            pi += 1
    while pi < len(panicky):
        groups.append([panicky[pi]])
        pi += 1
    _run_groups(groups, exp, results, nproc)
    # attribute group-level failures by re-running members alone
    retry = [[c] for g in groups for c in g if results.get(c["id"], {}).get("status") == "retry"]
    if retry:
        _run_groups(retry, exp, results, nproc, final=True)
    return results


def _run_groups(groups, exp, results, nproc, final=False):
    jobs = []
    for g in groups:
        jobs.append({"name": "prog", "files": {"prog.incn": program_text(g)}, "entry": "prog.incn", "check": True, "run": True})
    res = progs.run_jobs(jobs, nproc)
    for g, job, r in zip(groups, jobs, res):
        text = job["files"]["prog.incn"]
        single = len(g) == 1
        ck = r["check"]
        if ck is None or ck.get("rc") != 0:
            for c in g:
                if single or final:
                    results[c["id"]] = {"status": "check_rejected", "sig": _check_sig(ck), "program": text}
                else:
                    results[c["id"]] = {"status": "retry"}
            continue
        b = r["build"]
        if b is None or b.get("rc") != 0:
            for c in g:
                if single or final:
                    if b and b.get("timeout"):
                        results[c["id"]] = {"status": "inconclusive", "sig": "build watchdog"}
                    else:
                        results[c["id"]] = {"status": "build_failed", "sig": first_rustc_error((b or {}).get("stderr", "") + (b or {}).get("stdout", "")), "program": text}
                else:
                    results[c["id"]] = {"status": "retry"}
            continue
        run = r["run"]
        if run is None or run.get("timeout") or run.get("missing_binary"):
            for c in g:
                results[c["id"]] = {"status": "inconclusive", "sig": "run watchdog / missing binary"} if (single or final) else {"status": "retry"}
            continue
        seg = split_segments(run["stdout"])
        for k, c in enumerate(g):
            lines, panic = exp[c["id"]]
            last = k == len(g) - 1
            if c["id"] not in seg:
                # an earlier case stopped the process: not attributable here
                results[c["id"]] = {"status": "retry"} if not (single or final) else {"status": "diff", "sig": "case marker never printed", "program": text}
                continue
            out = "\n".join(seg[c["id"]])
            if last:
                sig = compare_output(lines, panic, out, run["stderr"], run["rc"])
            else:
                sig = compare_output(lines, None, out, "", 0) if panic is None else "internal: panicking case not last"
                if sig is None and k + 1 < len(g) and g[k + 1]["id"] not in seg:
                    sig = "program stopped after this case (exit %s, stderr %r)" % (run["rc"], run["stderr"].strip()[-120:])
            if sig is None:
                results[c["id"]] = {"status": "ok", "lines": len(lines), "panic": panic.text() if panic else None}
            elif single or final:
                results[c["id"]] = {"status": "diff", "sig": sig, "program": text}
            else:
                results[c["id"]] = {"status": "retry"}


def _check_sig(ck):
    if ck is None:
        return "no check result"
    t = (ck.get("stderr") or "") + (ck.get("stdout") or "")
    t = re.sub(r"\x1b\[[0-9;]*m", "", t)
    m = re.search(r"(error[^\n]*)", t)
    return (m.group(1) if m else t.strip()[-100:])[:140]


# --------------------------------------------------------------------------------------------------
# delta reduction of a failing case (greedy removal of statements / declarations while the failure persists)
# --------------------------------------------------------------------------------------------------
def _stmt_paths(stmts, prefix=()):
    """All removable positions: (path to list, index)."""
    out = []
    for i, s in enumerate(stmts):
        k = s[0]
        if k != "return":
            out.append(prefix + (i,))
        if k == "if":
            for bi, (c, body) in enumerate(s[1]):
                out += _stmt_paths(body, prefix + (i, "if", bi))
            if s[2] is not None:
                out += _stmt_paths(s[2], prefix + (i, "else"))
        elif k in ("while",):
            out += _stmt_paths(s[2], prefix + (i, "body2"))
        elif k == "for":
            out += _stmt_paths(s[3], prefix + (i, "body3"))
        elif k == "match":
            for ai, (p, body) in enumerate(s[2]):
                out += _stmt_paths(body, prefix + (i, "arm", ai))
    return out


def _remove(stmts, path):
    """Return a copy of stmts with the statement at `path` removed."""
    i = path[0]
    if len(path) == 1:
        return stmts[:i] + stmts[i + 1:]
    s = stmts[i]
    tag = path[1]
    if tag == "if":
        bi = path[2]
        br = list(s[1])
        br[bi] = (br[bi][0], _remove(br[bi][1], path[3:]))
        ns = ("if", br, s[2])
    elif tag == "else":
        ns = ("if", s[1], _remove(s[2], path[2:]))
    elif tag == "body2":
        ns = (s[0], s[1], _remove(s[2], path[2:])) + tuple(s[3:])
    elif tag == "body3":
        ns = (s[0], s[1], s[2], _remove(s[3], path[2:]))
    elif tag == "arm":
        ai = path[2]
        arms = list(s[2])
        arms[ai] = (arms[ai][0], _remove(arms[ai][1], path[3:]))
        ns = (s[0], s[1], arms) + tuple(s[3:])
    else:
        raise ValueError(path)
    return stmts[:i] + [ns] + stmts[i + 1:]


def reduce_case(case, want_status, want_sig_prefix, rounds=12, nproc=8):
    """Greedy parallel delta reduction. A candidate is kept if it still fails with the same status and signature prefix."""
    import copy
    cur = copy.deepcopy(case)

    def still_fails(cands):
        res = evaluate(cands, batch=1, nproc=nproc)
        return [res[c["id"]].get("status") == want_status and (res[c["id"]].get("sig") or "").startswith(want_sig_prefix) for c in cands]

    for _ in range(rounds):
        cands = []
        # remove a declaration (not the entry)
        for di, d in enumerate(cur["decls"]):
            if d.get("name") == cur["entry"]:
                continue
            c = dict(cur, id="%sr%d" % (case["id"], len(cands)), decls=cur["decls"][:di] + cur["decls"][di + 1:])
            cands.append(c)
        # remove a statement from any function body
        for di, d in enumerate(cur["decls"]):
            if d["kind"] != "func":
                continue
            for p in _stmt_paths(d["body"]):
                nd = dict(d, body=_remove(d["body"], p))
                c = dict(cur, id="%sr%d" % (case["id"], len(cands)), decls=cur["decls"][:di] + [nd] + cur["decls"][di + 1:])
                cands.append(c)
        if not cands:
            break
        cands = cands[:96]
        # candidates keep the entry name; ids only label results
        oks = still_fails(cands)
        # apply the first success, then greedily try to combine further ones next round
        progressed = False
        for c, ok in zip(cands, oks):
            if ok:
                cur = dict(c, id=case["id"])
                progressed = True
                break
        if not progressed:
            break
    return cur
