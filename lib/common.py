"""Shared machinery: paths, builds from /repo's working tree, verdict bookkeeping, evidence, known findings."""
import hashlib
import json
import os
import random
import subprocess
import sys
import time

VERIF = os.path.dirname(os.path.dirname(os.path.abspath(__file__)))
# VERIF_REPO is a development aid only (background validation runs against a snapshot of /repo); registered commands never set it.
REPO = os.environ.get("VERIF_REPO", "/repo")
BUILD = os.path.join(VERIF, ".build")
EVID = os.path.join(VERIF, "evidence")
REPLAY = os.path.join(VERIF, "replay")
CORPUS = os.path.join(VERIF, "corpus")
KNOWN = os.path.join(VERIF, "known_findings.json")
GUARD_CFG = "--cfg incan_verif"
NCPU = min(16, os.cpu_count() or 4)

INCAN = os.path.join(BUILD, "repo", "release", "incan")
INCAN_LSP = os.path.join(BUILD, "repo", "release", "incan-lsp")
KERNELS = os.path.join(BUILD, "kernels", "release", "verif-kernels")
KERNELS_DEV = os.path.join(BUILD, "kernels", "debug", "verif-kernels")
HARNESS = os.path.join(BUILD, "harness", "release", "verif-harness")


def base_env():
    env = dict(os.environ)
    env["CARGO_NET_OFFLINE"] = "true"
    env["RUST_BACKTRACE"] = "0"
    env.pop("RUSTFLAGS", None)
    env.pop("CARGO_TARGET_DIR", None)
    return env


class BuildError(Exception):
    pass


def _cargo_build(cwd, target_dir, args, rustflags=None, log=None):
    env = base_env()
    env["CARGO_TARGET_DIR"] = target_dir
    if rustflags:
        env["RUSTFLAGS"] = rustflags
    os.makedirs(BUILD, exist_ok=True)
    cmd = ["cargo", "build", "--offline"] + args
    t0 = time.time()
    p = subprocess.run(cmd, cwd=cwd, env=env, stdout=subprocess.PIPE, stderr=subprocess.STDOUT, text=True)
    if log:
        with open(os.path.join(BUILD, log), "w") as f:
            f.write(p.stdout)
    if p.returncode != 0:
        sys.stdout.write(p.stdout[-4000:])
        raise BuildError("cargo build failed in %s (see %s)" % (cwd, log))
    return time.time() - t0


def _ensure_lock(crate_dir):
    lock = os.path.join(crate_dir, "Cargo.lock")
    src = os.path.join(REPO, "Cargo.lock")
    if not os.path.exists(lock) or open(lock).read() != open(src).read():
        # the harness crates resolve against the repository's lock file (offline registry)
        with open(lock, "w") as f:
            f.write(open(src).read())


def build_repo():
    """Release build of /repo's working tree (bins incan, incan-lsp) with hooks on."""
    return _cargo_build(REPO, os.path.join(BUILD, "repo"), ["--release", "--bins"], GUARD_CFG, "repo-build.log")


def crate_dir(name, fresh=False):
    """The harness crates have path dependencies on /repo; for a VERIF_REPO override build from a copy with rewritten paths."""
    d = os.path.join(VERIF, name)
    if REPO == "/repo":
        return d
    import shutil
    c = os.path.join(BUILD, "src_" + name)
    if not fresh and os.path.exists(os.path.join(c, "Cargo.lock")):
        return c
    shutil.rmtree(c, ignore_errors=True)
    shutil.copytree(d, c, ignore=shutil.ignore_patterns("target"))
    t = os.path.join(c, "Cargo.toml")
    text = open(t).read().replace('path = "/repo', 'path = "' + REPO)
    open(t, "w").write(text)
    return c


def build_kernels(dev=False):
    d = crate_dir("kernels", fresh=True)
    _ensure_lock(d)
    t = _cargo_build(d, os.path.join(BUILD, "kernels"), ["--release"], None, "kernels-build.log")
    if dev:
        t += _cargo_build(d, os.path.join(BUILD, "kernels"), [], None, "kernels-dev-build.log")
    return t


def build_harness():
    d = crate_dir("harness", fresh=True)
    _ensure_lock(d)
    # overflow checks on: an integer overflow inside the compiler (which a release build would wrap silently and a dev build
    # turns into a panic) is made observable to the monitors that drive the library through the harness
    return _cargo_build(d, os.path.join(BUILD, "harness"), ["--release"], GUARD_CFG + " -C overflow-checks=on", "harness-build.log")


def sha(s):
    if isinstance(s, str):
        s = s.encode("utf-8", "surrogatepass")
    return hashlib.sha256(s).hexdigest()


def load_known(prop):
    if not os.path.exists(KNOWN):
        return []
    data = json.load(open(KNOWN))
    return [f for f in data.get("findings", []) if f["property"] == prop]


def quarantined(prop):
    """Set of generator features quarantined by *open* known findings of this property."""
    q = set()
    for f in load_known(prop):
        if f.get("status", "open") == "open":
            q.update(f.get("quarantines", []))
    return q


class Verdict:
    __slots__ = ("status", "signature", "detail")

    def __init__(self, status, signature="", detail=None):
        assert status in ("held", "violated", "inconclusive")
        self.status = status
        self.signature = signature
        self.detail = detail

    def __repr__(self):
        return "Verdict(%s,%r)" % (self.status, self.signature)


HELD = Verdict("held")


class Run:
    """Bookkeeping for one check run: three-valued verdict counts, violations with replay files, evidence."""

    def __init__(self, prop, tier, seed, level="exploration"):
        self.prop = prop
        self.tier = tier
        self.seed = seed
        self.level = level
        self.t0 = time.time()
        self.evaluations = 0
        self.held = 0
        self.inconclusive = 0
        self.inconclusive_reasons = {}
        self.violations = []
        self.known_lines = []
        self.notes = []
        self.distinct = set()
        self.features = {}
        self.samples = []
        self.extra = {}
        self.assumptions = []
        self.rule = ""
        self.min_held = 1
        self.max_violation_lines = 25
        self.known_site_hits = {}
        self._sites = None
        self.rng = random.Random((seed * 1000003) ^ int(sha(prop)[:8], 16))
        os.makedirs(os.path.join(REPLAY, prop), exist_ok=True)
        import glob
        for old in glob.glob(os.path.join(REPLAY, prop, "v%s_%d_*.json" % (tier[0], seed))):
            try:
                os.remove(old)
            except OSError:
                pass

    # ---- recording ----
    def feature(self, *names):
        for n in names:
            self.features[n] = self.features.get(n, 0) + 1

    def sample(self, s, cap=5):
        if len(self.samples) < cap:
            self.samples.append(s)

    def record(self, verdict, case=None, key=None, nontrivial=True, count=1):
        """Record one evaluated case. `key` identifies distinctness; `case` is what a replay needs."""
        self.evaluations += count
        if verdict.status == "held":
            self.held += count
            if key is not None and nontrivial:
                self.distinct.add(key)
        elif verdict.status == "inconclusive":
            self.inconclusive += count
            r = verdict.signature or "unspecified"
            self.inconclusive_reasons[r] = self.inconclusive_reasons.get(r, 0) + count
        else:
            if key is not None and nontrivial:
                self.distinct.add(key)
            f = self._known_site(verdict.signature)
            if f is not None:
                # a recorded finding identified by its call site (exact failure signature of that site)
                self.known_site_hits[f["id"]] = self.known_site_hits.get(f["id"], 0) + 1
                if self.known_site_hits[f["id"]] == 1:
                    self.known("%s: %s [site signature: %s]" % (f["id"], f.get("what", ""), f["site_signature"]))
            else:
                self.violation(case, verdict)

    def _known_site(self, signature):
        import re
        if self._sites is None:
            self._sites = [f for f in load_known(self.prop) if f.get("status", "open") == "open" and f.get("site_signature")]
        for f in self._sites:
            if re.fullmatch(f["site_signature"], signature or ""):
                return f
        return None

    def violation(self, case, verdict):
        n = len(self.violations)
        path = os.path.join(REPLAY, self.prop, "v%s_%d_%03d.json" % (self.tier[0], self.seed, n))
        self.violations.append({"signature": verdict.signature, "replay": path})
        if n < 200:
            with open(path, "w") as f:
                json.dump({"property": self.prop, "seed": self.seed, "tier": self.tier, "case": case,
                           "signature": verdict.signature, "detail": verdict.detail}, f, indent=1, default=str)
        if n < self.max_violation_lines:
            print("VIOLATION property=%s replay=%s" % (self.prop, path))
            print("  signature: %s" % (verdict.signature,))
            sys.stdout.flush()

    def known(self, text):
        line = "KNOWN-FINDING: property=%s %s" % (self.prop, text)
        self.known_lines.append(line)
        print(line)
        sys.stdout.flush()

    def note(self, text):
        self.notes.append(text)
        print("NOTE: %s" % text)
        sys.stdout.flush()

    # ---- known findings ----
    def run_known(self, eval_case):
        """Re-execute every recorded witness of this property. eval_case(case) -> Verdict."""
        n = 0
        for f in load_known(self.prop):
            status = f.get("status", "open")
            for w in f["witnesses"]:
                v = eval_case(w["case"])
                n += 1
                what = "%s: %s" % (f["id"], w.get("what", f.get("what", "")))
                if status == "open":
                    if v.status == "violated" and _sig_match(w.get("signature"), v.signature):
                        self.known(what)
                    elif v.status == "violated":
                        self.violation(w["case"], Verdict("violated", "known witness %s fails differently: %s (recorded: %s)"
                                                          % (f["id"], v.signature, w.get("signature")), v.detail))
                    elif v.status == "held":
                        self.note("known finding %s no longer reproduces on this tree (witness now holds)" % f["id"])
                    else:
                        self.note("known finding %s witness inconclusive: %s" % (f["id"], v.signature))
                else:  # fixed: suppresses nothing
                    if v.status == "violated":
                        self.violation(w["case"], Verdict("violated", "fixed finding %s is back: %s" % (f["id"], v.signature), v.detail))
                    elif v.status == "held":
                        self.held += 1
                        self.evaluations += 1
                    else:
                        self.note("fixed finding %s witness inconclusive: %s" % (f["id"], v.signature))
        self.extra["known_witnesses_rerun"] = n

    # ---- finishing ----
    def finish(self):
        wall = time.time() - self.t0
        broken = None
        if self.evaluations == 0 or (self.held < self.min_held and not (self.known_site_hits and self.evaluations <= 2)):
            broken = "observed too little: held=%d < floor %d" % (self.held, self.min_held)
        elif self.inconclusive > 0.2 * max(1, self.evaluations) and not self.violations:
            broken = "inconclusive share too high: %d of %d" % (self.inconclusive, self.evaluations)
        cov = {
            "evaluations": int(self.evaluations),
            "distinct_nontrivial": int(len(self.distinct)),
            "rule": self.rule,
            "samples": self.samples[:8] or ["<none>"],
            "held": int(self.held),
            "violated": len(self.violations),
            "inconclusive": int(self.inconclusive),
            "inconclusive_reasons": self.inconclusive_reasons,
            "features": dict(sorted(self.features.items())),
            "known_finding_lines": self.known_lines,
            "known_site_hits": self.known_site_hits,
            "notes": self.notes,
            "violation_signatures": [v["signature"] for v in self.violations[:20]],
        }
        cov.update(self.extra)
        ev = {
            "property_id": self.prop,
            "tier": self.tier,
            "seed": int(self.seed),
            "level": self.level,
            "coverage": cov,
            "assumptions": self.assumptions,
            "wall_s": round(wall, 2),
            "violations": len(self.violations),
        }
        os.makedirs(EVID, exist_ok=True)
        with open(os.path.join(EVID, "%s.json" % self.prop), "w") as f:
            json.dump(ev, f, indent=1, default=str)
            f.write("\n")
        print("%s %s seed=%d: evaluations=%d held=%d violated=%d inconclusive=%d distinct_nontrivial=%d wall=%.1fs"
              % (self.prop, self.tier, self.seed, self.evaluations, self.held, len(self.violations),
                 self.inconclusive, len(self.distinct), wall))
        if self.violations:
            if len(self.violations) > self.max_violation_lines:
                print("(%d further violations not printed; see evidence)" % (len(self.violations) - self.max_violation_lines))
            return 1
        if broken:
            print("BROKEN-RUN property=%s %s" % (self.prop, broken))
            return 2
        return 0


def _sig_match(recorded, got):
    if recorded is None:
        return True
    return recorded == got or (recorded.endswith("*") and got.startswith(recorded[:-1]))


def chunks(seq, n):
    for i in range(0, len(seq), n):
        yield seq[i:i + n]
