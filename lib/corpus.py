"""Corpus: the repository's own Incan sources and the ```incan blocks of its documentation (read from /repo at run time)."""
import glob
import os
import re

from common import REPO, VERIF

VERIF_CORPUS = os.path.join(VERIF, "corpus")
_FENCE = re.compile(r"^([ \t]*)```incan[^\n]*\n(.*?)^[ \t]*```", re.S | re.M)
_cache = None


def _dedent(block, indent):
    if not indent:
        return block
    out = []
    for l in block.split("\n"):
        out.append(l[len(indent):] if l.startswith(indent) else l.lstrip() if not l.strip() else l)
    return "\n".join(out)


def corpus_texts():
    """List of (id, text). Ids are repo-relative paths (docs blocks get a #n suffix)."""
    global _cache
    if _cache is not None:
        return _cache
    items = []
    pats = ["examples/**/*.incn", "tests/**/*.incn", "stdlib/**/*.incn", "benchmarks/**/*.incn", "examples/**/*.incan", "tests/**/*.incan"]
    seen = set()
    for pat in pats:
        for p in sorted(glob.glob(os.path.join(REPO, pat), recursive=True)):
            if p in seen or "/target/" in p:
                continue
            seen.add(p)
            try:
                items.append((os.path.relpath(p, REPO), open(p, encoding="utf-8").read()))
            except (UnicodeDecodeError, OSError):
                pass
    for p in sorted(glob.glob(os.path.join(REPO, "workspaces/docs-site/docs/**/*.md"), recursive=True)):
        try:
            md = open(p, encoding="utf-8").read()
        except (UnicodeDecodeError, OSError):
            continue
        for n, m in enumerate(_FENCE.finditer(md)):
            body = _dedent(m.group(2), m.group(1))
            if body.strip():
                items.append(("%s#%d" % (os.path.relpath(p, REPO), n), body if body.endswith("\n") else body + "\n"))
    _cache = items
    return items
