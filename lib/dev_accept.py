import sys, json
import corpus, hc
from common import build_harness
build_harness()
items=corpus.corpus_texts()
res=hc.run_requests([{"op":"check","src":t} for _,t in items])
acc=sorted(i for (i,_),r in zip(items,res) if r.get("ok"))
json.dump(acc,open(sys.argv[1],'w'))
print(len(acc),"accepted of",len(items))
