"""Dev tool: greedy elimination of generator features until generated cases are (nearly) always ok."""
import random, collections, sys, json
import gprog, casecheck, c01
from common import quarantined
ESSENTIAL={"stmt.new_var","stmt.print_expr","int.lit","int.var","str.lit","let.inferred","let.mut","let.let","stmt.mutate","float.lit","bool.cmp_int","stmt.if"}
avoid=set(quarantined('C01')|quarantined('C02')|c01.RESTRICTIONS)|set(sys.argv[3:])
n=int(sys.argv[1]); seed=int(sys.argv[2])
log=open('/tmp/greedy.log','a')
for it in range(25):
    rng=random.Random(seed+it)
    cases=[gprog.gen_case(rng, str(i), avoid, nstmts=rng.randint(2,6)) for i in range(n)]
    res=casecheck.evaluate(cases, batch=8, nproc=8)
    tot=collections.Counter(); bad=collections.Counter(); cls=collections.Counter(); nbad=0; nok=0
    for c in cases:
        r=res[c["id"]]
        if r["status"]=="inconclusive": continue
        for f in c["features"]: tot[f]+=1
        if r["status"]=="ok": nok+=1
        else:
            nbad+=1; cls[(r["status"],r.get("sig","")[:70])]+=1
            for f in c["features"]: bad[f]+=1
    cand=sorted(((bad[x]/tot[x],bad[x],tot[x],x) for x in tot if bad[x]>=2 and x not in ESSENTIAL),reverse=True)
    print("iter",it,"ok",nok,"bad",nbad,"top",[(round(a,2),b,t,x) for a,b,t,x in cand[:5]],file=log); print("   ",cls.most_common(6),file=log); log.flush()
    if nbad==0: break
    if not cand or cand[0][0]<0.2:
        print("no dominant feature; stop",file=log); break
    avoid.add(cand[0][3]); print("   avoid +=",cand[0][3],file=log); log.flush()
print("FINAL extra avoid:",sorted(avoid-set(quarantined('C01')|quarantined('C02')|c01.RESTRICTIONS)),file=log); log.flush()
