"""Dev tool: greedy discovery of generator features that make a relation fail (to triage defects)."""
import random, collections, sys, json, re
import gsyn, hc, fmtchecks

def round_(avoid, N, seed0):
    srcs=[];feats=[]
    for i in range(N):
        rr=random.Random(seed0+i)
        t,f=gsyn.gen_file(rr, avoid, ndecl=rr.randint(1,2))
        srcs.append(t);feats.append(f)
    res=hc.run_requests([{"op":"fmtcmp","src":s} for s in srcs])
    return srcs,feats,res

if __name__=="__main__":
    prop=sys.argv[1]
    verdict = fmtchecks.verdict_c08 if prop=="C08" else fmtchecks.verdict_c09
    avoid=set(sys.argv[2:])
    thr=0.5
    for it in range(60):
        srcs,feats,res=round_(avoid,3000,it*100000)
        tot=collections.Counter();bad=collections.Counter();nb=0;n=0;kinds=collections.Counter();ex={}
        for s,f,r in zip(srcs,feats,res):
            v=verdict(r)
            if v.status=="inconclusive": continue
            n+=1
            for x in f: tot[x]+=1
            if v.status=="violated":
                nb+=1;kinds[v.signature]+=1
                if v.signature not in ex or len(s)<len(ex[v.signature]): ex[v.signature]=s
                for x in f: bad[x]+=1
        print("iter",it,"fail",nb,"/",n, "avoid",len(avoid)); sys.stdout.flush()
        if nb==0: break
        cand=sorted(((bad[x]/tot[x],bad[x],x) for x in tot if tot[x]>=8),reverse=True)
        print("  top:",[(round(a,2),b,x) for a,b,x in cand[:5]])
        print("  kinds:",kinds.most_common(4))
        if cand[0][0]<thr:
            json.dump(ex,open('/tmp/q_ex.json','w'),indent=1)
            break
        avoid.add(cand[0][2])
    print("AVOID",sorted(avoid))
