"""Dev tool: generate cases, then reduce one example of every failure class and print the reduced programs."""
import random, collections, sys
import gprog, casecheck
n=int(sys.argv[1]); seed=int(sys.argv[2]); avoid=set(sys.argv[3:])
rng=random.Random(seed)
cases=[gprog.gen_case(rng, str(i), avoid, nstmts=rng.randint(2,5)) for i in range(n)]
res=casecheck.evaluate(cases, batch=6, nproc=8)
seen={}
for c in cases:
    r=res[c["id"]]
    if r["status"] in ("ok","inconclusive"): continue
    k=(r["status"], r.get("sig","")[:60])
    if k not in seen or len(r.get("program",""))<len(seen[k][1].get("program","")): seen[k]=(c,r)
print("ok", sum(1 for r in res.values() if r["status"]=="ok"), "of", n, "classes", len(seen))
for k,(c,r) in list(seen.items())[:int(sys.argv[0] and 14)]:
    red=casecheck.reduce_case(c, r["status"], r.get("sig","")[:40])
    print("=====",k); print(casecheck.program_text([red]))
