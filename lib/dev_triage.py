"""Dev tool: run N generated cases, print failure classes + per-feature failure rates, dump smallest example per class."""
import random, collections, sys, json
import gprog, casecheck

def main():
    n=int(sys.argv[1]); seed=int(sys.argv[2]); avoid=set(sys.argv[3:])
    rng=random.Random(seed)
    cases=[gprog.gen_case(rng, str(i), avoid, nstmts=rng.randint(2,6)) for i in range(n)]
    res=casecheck.evaluate(cases, batch=6, nproc=8)
    tot=collections.Counter(); bad=collections.Counter(); cls=collections.Counter(); ex={}
    for c in cases:
        r=res[c["id"]]
        if r["status"]=="inconclusive": continue
        for f in c["features"]: tot[f]+=1
        if r["status"]!="ok":
            k=(r["status"], r.get("sig","")[:100])
            cls[k]+=1
            for f in c["features"]: bad[f]+=1
            p=r.get("program","")
            if k not in ex or len(p)<len(ex[k]): ex[k]=p
    print("ok", sum(1 for r in res.values() if r["status"]=="ok"), "of", n)
    for k,v in cls.most_common(30): print(v,k)
    cand=sorted(((bad[x]/tot[x],bad[x],tot[x],x) for x in tot if tot[x]>=4),reverse=True)
    print("features:",[(round(a,2),b,t,x) for a,b,t,x in cand[:14]])
    json.dump({str(k):v for k,v in ex.items()},open('/tmp/triage_ex.json','w'),indent=1)
main()
