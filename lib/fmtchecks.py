"""C08 (formatting preserves the AST) and C09 (idempotence, hygiene, --check consistency): shared machinery."""
import glob
import os
import random
import re
import shutil
import subprocess
import tempfile

import corpus
import gsyn
import hc
from common import (BUILD, INCAN, NCPU, Run, Verdict, base_env, build_harness, build_repo, quarantined, sha)

# ---- documented normalisations applied to span-erased dumps before comparison (DESIGN 5/C08) ----
_RE_TUPLE = re.compile(r'Generic\(\n\s*"Tuple",\n')
_RE_NONE = re.compile(r'Simple\(\n\s*"None",\n\s*\)')
_RE_DOC = re.compile(r'Docstring\(\n(\s*)"((?:[^"\\]|\\.)*)",\n')


def _doc_norm(m):
    body = m.group(2)
    # strip escaped whitespace at both ends and around line breaks (the guide documents docstring re-layout)
    parts = [p.strip(" ") for p in body.replace("\\t", " ").split("\\n")]
    while parts and parts[0] == "":
        parts.pop(0)
    while parts and parts[-1] == "":
        parts.pop()
    return 'Docstring(\n%s"%s",\n' % (m.group(1), "\\n".join(parts))


def normalise(dump):
    d = _RE_TUPLE.sub("Tuple(\n", dump)
    d = _RE_NONE.sub("Unit", d)
    d = _RE_DOC.sub(_doc_norm, d)
    return d


def first_diff(a, b):
    la, lb = a.split("\n"), b.split("\n")
    for k, (x, y) in enumerate(zip(la, lb)):
        if x != y:
            return "`%s` vs `%s`" % (x.strip(), y.strip())
    return "length %d vs %d lines" % (len(la), len(lb))


def verdict_c08(r):
    """Verdict for one fmtcmp reply under C08."""
    if "crash" in r or "timeout" in r:
        return Verdict("violated", "formatter pipeline %s" % ("crashed the process (%s)" % r.get("crash") if "crash" in r else "did not return within the watchdog"))
    if not r.get("parsed"):
        return Verdict("inconclusive", "input does not parse (precondition)")
    if r.get("fmt") != "ok":
        return Verdict("violated", "format_source %s on a parseable input: %s" % (r.get("fmt"), (r.get("msg") or "")[:80]))
    if r.get("reparse") != "ok":
        return Verdict("violated", "formatted output does not parse: %s" % re.sub(r"@\d+", "@N", r["reparse"])[:90], {"out": r.get("out")})
    if r.get("same"):
        return Verdict("held")
    d1, d2 = r.get("d1"), r.get("d2")
    if d1 is None or d2 is None:
        return Verdict("violated", "AST changed: %s" % re.sub(r"line \d+: ", "", r.get("first_diff", ""))[:100], {"out": r.get("out")})
    n1, n2 = normalise(d1), normalise(d2)
    if n1 == n2:
        return Verdict("held")
    return Verdict("violated", "AST changed: %s" % first_diff(n1, n2)[:100], {"out": r.get("out")})


def verdict_c09(r):
    if "crash" in r or "timeout" in r:
        return Verdict("inconclusive", "formatter pipeline crashed/stalled (reported under C08/C11)")
    if not r.get("parsed") or r.get("fmt") != "ok" or r.get("reparse") != "ok":
        return Verdict("inconclusive", "precondition: fmt(x) must exist and parse (C08 territory)")
    if r.get("idem") is not True:
        sig = "fmt(fmt(x)) != fmt(x): %s" % (re.sub(r"line \d+: ", "", r.get("first_idem_diff", str(r.get("idem"))))[:100])
        return Verdict("violated", sig, {"out": r.get("out"), "out2": r.get("out2")})
    if not r.get("final_newline_ok"):
        return Verdict("violated", "formatted output does not end in exactly one newline")
    if r.get("hygiene"):
        h = re.sub(r"\d+", "N", r["hygiene"][0])
        return Verdict("violated", "formatted output has %s outside string contents" % h, {"hygiene": r["hygiene"][:5]})
    return Verdict("held")


def featkey(feats):
    return sha(",".join(sorted(feats)))[:16]


def eval_text(prop, text):
    r = hc.run_requests([{"op": "fmtcmp", "src": text}], nproc=1)[0]
    return (verdict_c08 if prop == "C08" else verdict_c09)(r)


def make_eval_case(prop):
    def eval_case(case):
        if case.get("kind") == "cli":
            return cli_scenario(case)
        text = case["src"] if "src" in case else open(os.path.join(corpus.VERIF_CORPUS, case["file"])).read()
        return eval_text(prop, text)
    return eval_case


# ---- CLI scenarios (C09): `incan fmt`, `--check`, `--diff` on scratch directories ----

def _snap(d):
    out = {}
    for p in sorted(glob.glob(os.path.join(d, "**", "*"), recursive=True)):
        if os.path.isfile(p):
            st = os.stat(p)
            out[os.path.relpath(p, d)] = (open(p, "rb").read(), st.st_mtime_ns)
    return out


def cli_scenario(case):
    """files: {relpath: text}. Runs fmt --check / --diff (must not modify), fmt (rewrite), then --check (must be 0)."""
    files = case["files"]
    d = tempfile.mkdtemp(prefix="c09cli_", dir=os.path.join(BUILD, "scratch"))
    try:
        for rel, txt in files.items():
            p = os.path.join(d, rel)
            os.makedirs(os.path.dirname(p), exist_ok=True)
            with open(p, "w") as f:
                f.write(txt)
        target = "." if case.get("dir_mode") else sorted(files)[0]
        env = base_env()
        env["NO_COLOR"] = "1"

        def run(args):
            return subprocess.run([INCAN, "fmt"] + args + [target], cwd=d, env=env, stdout=subprocess.PIPE, stderr=subprocess.PIPE, text=True, timeout=60)

        before = _snap(d)
        for flag in ("--check", "--diff"):
            p = run([flag])
            if p.returncode not in (0, 1):
                return Verdict("violated", "incan fmt %s exited %d" % (flag, p.returncode), {"stderr": p.stderr[-400:]})
            after = _snap(d)
            if after != before:
                return Verdict("violated", "incan fmt %s modified files (bytes or mtime)" % flag)
        p = run([])
        if p.returncode != 0:
            return Verdict("inconclusive", "incan fmt failed on the scenario (exit %d)" % p.returncode)
        p = run(["--check"])
        if p.returncode != 0:
            return Verdict("violated", "incan fmt --check exits %d right after incan fmt rewrote the files" % p.returncode, {"stdout": p.stdout[-400:]})
        mid = _snap(d)
        p = run([])
        if p.returncode == 0 and {k: v[0] for k, v in _snap(d).items()} != {k: v[0] for k, v in mid.items()}:
            return Verdict("violated", "second incan fmt changed file contents again (CLI non-idempotent)")
        return Verdict("held")
    finally:
        shutil.rmtree(d, ignore_errors=True)


def main(prop, tier, seed, replay=None):
    run = Run(prop, tier, seed)
    build_harness()
    eval_case = make_eval_case(prop)
    verdict = verdict_c08 if prop == "C08" else verdict_c09
    if prop == "C08":
        run.rule = ("one evaluation = one parseable file x: y = format_source(x) must parse and norm(AST(y)) == norm(AST(x)) (spans erased; "
                    "documented normalisations only: docstring whitespace, (A,B)=Tuple[A,B], ()=None); inputs from the grammar-directed "
                    "generator G-syn (per-construct feature flags) and the repository/docs corpus; distinct = feature-set hash (generated) or "
                    "file hash (corpus); non-trivial = at least 6 generator features / 3 lines")
    else:
        run.rule = ("one evaluation = one parseable file x with parseable fmt(x): fmt(fmt(x)) == fmt(x), exactly one final newline, no tabs / "
                    "trailing blanks outside string tokens of the output (extents from the lexer), plus CLI scenarios (fmt --check/--diff do not "
                    "modify bytes or mtime; --check exits 0 right after fmt); distinct = feature-set hash or file hash; non-trivial = >= 6 features")
    run.assumptions = ["AST equality is taken on the `{:#?}` dump with Span blocks erased (the dump `incan --parse` prints)"]
    if replay:
        run.record(eval_case(replay["case"]), replay["case"], key="replay")
        return run.finish()
    if prop == "C09":
        build_repo()
        os.makedirs(os.path.join(BUILD, "scratch"), exist_ok=True)
    run.run_known(eval_case)
    avoid = quarantined("C08") | quarantined("C09")
    run.extra["quarantined_features"] = sorted(avoid)
    n = (6000 if tier == "quick" else 150000)
    rng = random.Random(seed * 7 + 11)
    texts, feats = [], []
    for i in range(n):
        t, f = gsyn.gen_file(random.Random(rng.getrandbits(48)), avoid, ndecl=rng.randint(1, 5))
        texts.append(t)
        feats.append(f)
    ngen = len(texts)
    for path, t in corpus.corpus_texts():
        texts.append(t)
        feats.append({"corpus:" + path})
    res = hc.run_requests([{"op": "fmtcmp", "src": t} for t in texts], nproc=NCPU, shard=300)
    for i, (t, f, r) in enumerate(zip(texts, feats, res)):
        v = verdict(r)
        for x in f:
            if not x.startswith("corpus:"):
                run.features[x] = run.features.get(x, 0) + 1
        nontriv = (len(f) >= 6) if i < ngen else (t.count("\n") >= 3)
        run.record(v, {"src": t, "features": sorted(f)}, key=featkey(f) if i < ngen else sha(t)[:16], nontrivial=nontriv)
        if v.status == "held" and i % 977 == 3:
            run.sample(t[:400], cap=4)
    run.extra["generated_files"] = ngen
    run.extra["corpus_files"] = len(texts) - ngen
    # every catalogue feature that is not quarantined must have been produced (else inconclusive run)
    if prop == "C09":
        k = 60 if tier == "quick" else 1000
        for j in range(k):
            r2 = random.Random(seed * 31 + j)
            files = {}
            for q in range(r2.randint(1, 3)):
                for _try in range(20):
                    t, f = gsyn.gen_file(random.Random(r2.getrandbits(48)), avoid, ndecl=r2.randint(1, 3))
                    if hc.run_requests([{"op": "ast", "src": t}], nproc=1)[0].get("ok"):
                        break
                if r2.random() < 0.25 and '"""' not in t and "'''" not in t:
                    t = t.replace("\n", "\r\n")  # a file with CRLF line endings (multi-line strings excluded: their content would change)
                files[("sub/" if r2.random() < 0.3 else "") + "f%d.incn" % q] = t
            case = {"kind": "cli", "files": files, "dir_mode": r2.random() < 0.5}
            v = cli_scenario(case)
            run.record(v, case, key="cli:" + sha(repr(sorted(files.items())))[:12])
        run.extra["cli_scenarios"] = k
    run.min_held = 500
    return run.finish()
