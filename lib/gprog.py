"""G-prog: type-directed generator of well-typed Incan program *cases* over the IR of incanref.

A case = {"id", "decls": [...], "body": [...], "features": set}.  Cases are self-contained (all top-level names carry the
case prefix) so several can be batched into one program: `def case_<id>() -> None` + a main that calls them in order.
"""
import random

INT, FLOAT, BOOL, STR = "int", "float", "bool", "str"
LINT, LSTR, DSI = ("list", "int"), ("list", "str"), ("dict", "str", "int")
OINT = ("opt", "int")
LFLOAT = ("list", "float")
WORDS = ["a", "bc", "Hello", "wörld", "x y", "", "€5", "𝄞", "aXbXc", "  pad ", "zz", "Incan", "q,r,s", "MiXeD"]
KEYS = ["k1", "k2", "alpha", "b", "zz"]


class Gen:
    def __init__(self, rng, cid, avoid=()):
        self.r = rng
        self.cid = cid
        self.avoid = set(avoid)
        self.feat = set()
        self.scopes = [{}]      # name -> (type, mutable)
        self.decls = []
        self.funcs = []         # (name, [param types], ret type)
        self.models = []        # (name, [(field, type)], [methods (name, ptypes, ret, mut)])
        self.enums = []         # (name, [(variant, [types])])
        self.nvar = 0
        self.loop_depth = 0
        self.in_func = None

    # ---------------- helpers ----------------
    def on(self, feat, p=0.5):
        if feat in self.avoid:
            return False
        if self.r.random() < p:
            self.feat.add(feat)
            return True
        return False

    def pick(self, opts):
        opts = [(f, w, fn) for f, w, fn in opts if f not in self.avoid]
        tot = sum(w for _, w, _ in opts)
        x = self.r.random() * tot
        for f, w, fn in opts:
            x -= w
            if x <= 0:
                v = fn()
                if v is not None:
                    self.feat.add(f)
                    return v
        for f, w, fn in opts:
            v = fn()
            if v is not None:
                self.feat.add(f)
                return v
        raise ValueError("no alternative produced a value")

    def fresh(self, base="v"):
        """A new name - or, sometimes, a name whose scope has ended (a finished loop's variable, a block local, a match binding):
        rebinding a dead name is legal and must behave like any other new binding."""
        retired = getattr(self, "retired", None)
        if retired and self.on("name.reuse_dead", 0.2):
            visible = set(n for sc in self.scopes for n in sc)
            cands = [n for n in retired if n not in visible]
            if cands:
                return self.r.choice(cands)
        self.nvar += 1
        return "%s%d" % (base, self.nvar)

    def pop_scope(self):
        sc = self.scopes.pop()
        if not hasattr(self, "retired"):
            self.retired = []
        for n in sc:
            if n not in ("self", "p0", "p1", "p2") and n not in self.retired:
                self.retired.append(n)
        return sc

    def vars_of(self, ty, mutable=None):
        out = []
        seen = set()
        for sc in reversed(self.scopes):
            for n, (t, m) in sc.items():
                if n in seen:
                    continue
                seen.add(n)
                if t == ty and (mutable is None or m == mutable):
                    out.append(n)
        return out

    def declare(self, name, ty, mutable):
        self.scopes[-1][name] = (ty, mutable)

    def small_int(self):
        return self.r.choice([0, 1, 2, 3, 4, 5, 7, 10, -1, -2, -3, -7, 12, 100, self.r.randint(-20, 20)])

    # ---------------- expressions ----------------
    def e_int(self, d=0):
        r = self.r
        leaf = [
            ("int.lit", 4, lambda: ("int", abs(self.small_int()))),
            ("int.neglit", 1, lambda: ("neg", ("int", r.randint(1, 9)))),
            ("int.var", 5, lambda: (lambda vs: ("var", r.choice(vs)) if vs else None)(self.vars_of(INT))),
        ]
        if d >= 3:
            return self.pick(leaf)
        sub = lambda: self.e_int(d + 1)
        opts = leaf + [
            ("int.add", 3, lambda: ("bin", "+", sub(), self.operand_int(d))),
            ("int.sub", 3, lambda: ("bin", "-", sub(), self.operand_int(d))),
            ("int.mul", 2, lambda: ("bin", "*", self.operand_int(d), self.tight_int(d))),
            ("int.floordiv", 2, lambda: ("bin", "//", self.operand_int(d), self.tight_int(d))),
            ("int.mod", 2, lambda: ("bin", "%", self.operand_int(d), self.tight_int(d))),
            ("int.pow_var_base", 0.7, lambda: (lambda vs: ("pow", ("var", r.choice(vs)), ("int", r.randint(0, 3)), "int") if vs else None)(self.vars_of(INT))),
            ("int.pow_lit_base", 0.4, lambda: ("pow", ("int", r.randint(0, 5)), ("int", r.randint(0, 3)), "int")),
            ("int.paren_redundant", 1, lambda: ("paren", ("bin", "*", self.atom_int(), self.atom_int()))),
            ("paren.regroup", 1.2, lambda: ("bin", r.choice(["*", "-", "//", "%"]), ("paren", ("bin", r.choice(["+", "-"]), self.atom_int(), self.atom_int())), self.atom_int())),
            ("paren.regroup_right", 0.8, lambda: ("bin", r.choice(["-", "*"]), self.atom_int(), ("paren", ("bin", r.choice(["+", "-"]), self.atom_int(), self.atom_int())))),
            ("int.len_str", 0.7, lambda: ("len", self.e_str(d + 1))),
            ("int.len_str_ascii", 1, lambda: ("len", ("str", r.choice(["Hello", "", "x y", "aXbXc", "zz"])))),

            ("int.len_list", 1, lambda: (lambda vs: ("len", ("var", r.choice(vs))) if vs else None)(self.vars_of(LINT) + self.vars_of(LSTR))),
            ("int.call", 2, lambda: self.call_of(INT, d)),
            ("int.list_index", 1.5, lambda: (lambda vs: ("idx", "list", ("var", r.choice(vs)), self.index_expr(d)) if vs else None)(self.vars_of(LINT))),
            ("int.dict_index", 1, lambda: (lambda vs: ("idx", "dict", ("var", r.choice(vs)), ("str", r.choice(KEYS))) if vs else None)(self.vars_of(DSI))),
            ("int.field", 1.5, lambda: self.field_of(INT)),
            ("int.method", 1, lambda: self.method_of(INT, d)),
            ("int.abs_var", 0.5, lambda: (lambda vs: ("builtin", "abs", [("var", r.choice(vs))]) if vs else None)(self.vars_of(INT))),
            ("int.abs_expr", 0.4, lambda: ("builtin", "abs", [sub()])),
            ("int.sum", 0.4, lambda: (lambda vs: ("builtin", "sum", [("var", r.choice(vs))]) if vs else None)(self.vars_of(LINT))),
            ("int.from_str", 0.3, lambda: ("builtin", "int", [("str", r.choice(["42", "-7", "0", "12x", "", "007"]))])),
            ("int.neg_var", 0.6, lambda: (lambda vs: ("neg", ("var", r.choice(vs))) if vs else None)(self.vars_of(INT))),
        ]
        return self.pick(opts)

    def pow_base_int(self):
        return self.r.choice([("int", self.r.randint(0, 5)), ("var", self.r.choice(self.vars_of(INT))) if self.vars_of(INT) else ("int", 2)])

    def atom_int(self):
        vs = self.vars_of(INT)
        if vs and self.r.random() < 0.6:
            return ("var", self.r.choice(vs))
        return ("int", self.r.randint(0, 9))

    def operand_int(self, d):
        """An int operand that is an atom, a call or a tighter-binding sub-expression (never needs parentheses)."""
        r = self.r
        k = r.random()
        if k < 0.6 or d >= 2:
            return self.atom_int()
        if k < 0.8:
            return ("bin", "*", self.atom_int(), self.atom_int())
        return self.e_int_tight(d + 1)

    def tight_int(self, d):
        """Right operand of * // %: an atom or a postfix-level expression."""
        return self.atom_int() if self.r.random() < 0.7 or d >= 2 else self.e_int_tight(d + 1)

    def e_int_tight(self, d):
        """postfix-level int expression (call / index / field / len)."""
        for _ in range(4):
            e = self.e_int(3 if d >= 3 else d)
            if e[0] in ("int", "var", "call", "idx", "field", "len", "mcall", "builtin"):
                return e
        return self.atom_int()

    def index_expr(self, d):
        return self.r.choice([("int", self.r.randint(0, 3)), ("neg", ("int", self.r.randint(1, 3))), self.atom_int()])

    def e_float(self, d=0):
        r = self.r
        fl = lambda: ("float", r.choice([0.5, 1.5, 2.0, 2.25, 3.0, 10.0, 0.25, 7.5, 100.0, 1.0]))
        leaf = [
            ("float.lit", 3, fl),
            ("float.var", 4, lambda: (lambda vs: ("var", r.choice(vs)) if vs else None)(self.vars_of(FLOAT))),
        ]
        if d >= 3:
            return self.pick(leaf)
        fa = lambda: self.atom_float()
        opts = leaf + [
            ("float.div_int_int", 3, lambda: ("bin", "/", self.atom_int(), self.atom_int())),
            ("float.div_mixed", 2, lambda: ("bin", "/", fa(), self.atom_int()) if r.random() < 0.5 else ("bin", "/", self.atom_int(), fa())),
            ("float.arith_ff", 3, lambda: ("bin", r.choice(["+", "-", "*"]), fa(), fa())),
            ("float.arith_mixed", 3, lambda: ("bin", r.choice(["+", "-", "*"]), self.atom_int(), fa()) if r.random() < 0.5 else ("bin", r.choice(["+", "-", "*"]), fa(), self.atom_int())),
            ("float.floordiv_mixed", 1.5, lambda: ("bin", "//", fa(), self.atom_int()) if r.random() < 0.5 else ("bin", "//", self.atom_int(), fa())),
            ("float.mod_mixed", 1.5, lambda: ("bin", "%", fa(), self.atom_int()) if r.random() < 0.5 else ("bin", "%", self.atom_int(), fa())),
            ("float.floordiv_ff", 1, lambda: ("bin", "//", fa(), fa())),
            ("float.mod_ff", 1, lambda: ("bin", "%", fa(), fa())),
            ("float.pow_lit_base_neg_exp", 0.4, lambda: ("pow", ("int", r.randint(1, 4)), ("neg", ("int", r.randint(1, 2))), "float")),
            ("float.pow_lit_base_var_exp", 0.4, lambda: (lambda vs: ("pow", ("int", r.randint(1, 3)), ("var", r.choice(vs)), "float") if vs else None)(self.vars_of(INT))),
            ("float.pow_var_base_neg_exp", 0.5, lambda: (lambda vs: ("pow", ("var", r.choice(vs)), ("neg", ("int", r.randint(1, 2))), "float") if vs else None)(self.vars_of(INT))),
            ("float.pow_var_base_var_exp", 0.5, lambda: (lambda vs: ("pow", ("var", r.choice(vs)), ("var", r.choice(vs)), "float") if vs else None)(self.vars_of(INT))),
            ("float.pow_float_lit_base", 0.4, lambda: ("pow", fl(), ("int", r.randint(0, 3)), "float")),
            ("float.pow_float_var_base", 0.5, lambda: (lambda vs: ("pow", ("var", r.choice(vs)), ("int", r.randint(0, 3)), "float") if vs else None)(self.vars_of(FLOAT))),
            ("float.call", 1, lambda: self.call_of(FLOAT, d)),
            ("float.field", 1, lambda: self.field_of(FLOAT)),
            ("float.chain", 1.5, lambda: ("bin", r.choice(["+", "-"]), ("bin", "*", fa(), self.atom_int()), fa())),
            ("float.from_str", 0.3, lambda: ("builtin", "float", [("str", r.choice(["2.5", "10", "-0.5", "abc", "1.5.2"]))])),
        ]
        return self.pick(opts)

    def atom_float(self):
        vs = self.vars_of(FLOAT)
        if vs and self.r.random() < 0.6:
            return ("var", self.r.choice(vs))
        return ("float", self.r.choice([0.5, 1.5, 2.0, 4.0, 0.25, 3.0]))

    def e_bool(self, d=0):
        r = self.r
        leaf = [
            ("bool.lit", 1, lambda: ("bool", r.random() < 0.5)),
            ("bool.var", 2, lambda: (lambda vs: ("var", r.choice(vs)) if vs else None)(self.vars_of(BOOL))),
            ("bool.cmp_int", 6, lambda: ("cmp", r.choice(["==", "!=", "<", "<=", ">", ">="]), self.operand_int(2), self.operand_int(2))),
        ]
        if d >= 2:
            return self.pick(leaf)
        sub = lambda: self.e_bool_operand(d + 1)
        opts = leaf + [
            ("bool.cmp_float", 1.5, lambda: ("cmp", r.choice(["<", "<=", ">", ">="]), self.atom_float(), self.atom_float())),
            ("bool.cmp_mixed_int_left", 1.0, lambda: ("cmp", r.choice(["==", "<", ">=", "!=", ">"]), self.atom_int(), self.atom_float())),
            ("bool.cmp_mixed_float_left", 1.0, lambda: ("cmp", r.choice(["==", "<", ">=", "!=", ">"]), self.atom_float(), self.atom_int())),
            ("bool.cmp_str_lit", 1.0, lambda: ("cmp", r.choice(["==", "!=", "<", ">"]), ("str", r.choice(WORDS)), ("str", r.choice(WORDS)))),
            ("bool.cmp_str_var", 1.0, lambda: (lambda vs: ("cmp", r.choice(["==", "!=", "<", ">"]), ("var", r.choice(vs)), self.atom_str()) if vs else None)(self.vars_of(STR))),
            ("bool.and", 2, lambda: ("and", sub(), sub())),
            ("bool.or", 2, lambda: ("or", sub(), sub())),
            ("bool.not_atom", 1.5, lambda: (lambda vs: ("not", ("var", r.choice(vs))) if vs else None)(self.vars_of(BOOL))),
            ("bool.not_call", 0.7, lambda: (lambda c: ("not", c) if c else None)(self.call_of(BOOL, d))),
            ("bool.not_paren", 1.0, lambda: ("not", ("paren", self.e_bool(2)))),
            ("bool.in_str", 1, lambda: ("in", r.random() < 0.3, self.atom_str(), self.atom_str())),
            ("bool.in_list", 1, lambda: (lambda vs: ("in", r.random() < 0.3, self.atom_int(), ("var", r.choice(vs))) if vs else None)(self.vars_of(LINT))),
            ("bool.in_dict", 0.7, lambda: (lambda vs: ("in", r.random() < 0.3, ("str", r.choice(KEYS)), ("var", r.choice(vs))) if vs else None)(self.vars_of(DSI))),
            ("bool.str_method", 1, lambda: ("smeth", r.choice(["contains", "startswith", "endswith"]), self.atom_str(), [("str", r.choice(["a", "He", "", "d", "X"]))])),
            ("bool.call", 0.7, lambda: self.call_of(BOOL, d)),
        ]
        return self.pick(opts)

    def e_bool_operand(self, d, for_not=False):
        """Operand of and/or/not: comparison, variable, literal, call — or a parenthesised boolean (explicit grouping)."""
        e = self.e_bool(2)
        if for_not and e[0] in ("cmp", "in"):
            # `not a < b`: the table does not fix `not` vs comparison; always group explicitly
            return ("paren", e)
        return e

    def atom_str(self):
        vs = self.vars_of(STR)
        if vs and self.r.random() < 0.6:
            return ("var", self.r.choice(vs))
        return ("str", self.r.choice(WORDS))

    def e_str(self, d=0):
        r = self.r
        leaf = [
            ("str.lit", 3, lambda: ("str", r.choice(WORDS))),
            ("str.var", 4, lambda: (lambda vs: ("var", r.choice(vs)) if vs else None)(self.vars_of(STR))),
        ]
        if d >= 3:
            return self.pick(leaf)
        a = self.atom_str
        ascii_s = lambda: ("str", r.choice(["Hello", "aXbXc", "  pad ", "MiXeD", "q,r,s", "zz", "a é €"]))
        opts = leaf + [
            ("str.concat", 3, lambda: ("concat", a(), a())),
            ("str.concat3", 1, lambda: ("concat", ("concat", a(), ("str", "-")), a())),
            ("str.upper", 1, lambda: ("smeth", "upper", ascii_s() if r.random() < 0.7 else a(), [])),
            ("str.lower", 1, lambda: ("smeth", "lower", ascii_s() if r.random() < 0.7 else a(), [])),
            ("str.strip", 1, lambda: ("smeth", "strip", a(), [])),
            ("str.replace", 1, lambda: ("smeth", "replace", a(), [("str", r.choice(["X", "a", "l", " "])), ("str", r.choice(["", "_", "YY"]))])),
            ("str.index", 2, lambda: ("idx", "str", a(), self.index_expr(d))),
            ("str.slice", 2.5, lambda: self.slice_of("str", a(), d)),
            ("str.fstring", 2.5, lambda: self.fstr(d)),
            ("str.join", 0.8, lambda: (lambda vs: ("smeth", "join", ("str", r.choice([",", "", " - "])), [("var", r.choice(vs))]) if vs else None)(self.vars_of(LSTR))),
            ("str.list_index", 1, lambda: (lambda vs: ("idx", "list", ("var", r.choice(vs)), self.index_expr(d)) if vs else None)(self.vars_of(LSTR))),
            ("str.call", 1, lambda: self.call_of(STR, d)),
            ("str.field", 1, lambda: self.field_of(STR)),
            ("str.str_of_var", 0.8, lambda: (lambda vs: ("builtin", "str", [("var", r.choice(vs))]) if vs else None)(self.vars_of(INT))),
            ("str.str_of_expr", 0.5, lambda: ("builtin", "str", [self.e_int(d + 1)])),
            ("str.method", 0.7, lambda: self.method_of(STR, d)),
        ]
        return self.pick(opts)

    def slice_of(self, kind, base, d):
        r = self.r
        b = lambda: r.choice([None, ("int", r.randint(0, 4)), ("neg", ("int", r.randint(1, 4))), self.atom_int()])
        a, e = b(), b()
        c = None
        if self.on("slice.step", 0.5):
            c = r.choice([("int", 2), ("neg", ("int", 1)), ("int", 1), ("neg", ("int", 2)), ("int", 3), ("neg", ("int", 1)), ("neg", ("int", 3)), self.atom_int()])
        for x in (a, e):
            if x is not None:
                self.feat.add("slice.bound")
        if a is None and e is None and c is not None:
            self.feat.add("slice.coloncolon")
        return ("slice", kind, base, a, e, c)

    def fstr(self, d):
        parts = []
        for _ in range(self.r.randint(1, 3)):
            k = self.r.random()
            if k < 0.4:
                parts.append(self.r.choice(["v=", " ", "é:", "a-b", ", "] + (["{x}", "}{"] if self.on("fstr.brace_literal", 0.3) else [])))
            elif k < 0.75:
                parts.append(self.e_int_tight(d + 1) if self.r.random() < 0.6 else self.e_int(d + 1))
            else:
                parts.append(self.atom_str())
        return ("fstr", parts)

    def e_list_int(self, d=0):
        r = self.r
        opts = [
            ("list.lit", 4, lambda: ("list", [self.e_int(2) for _ in range(r.randint(0 if self.on("list.empty_literal", 0.2) else 1, 4))])),
            ("list.var", 2, lambda: (lambda vs: ("var", r.choice(vs)) if vs else None)(self.vars_of(LINT))),
            ("list.slice", 2.5, lambda: (lambda vs: self.slice_of("list", ("var", r.choice(vs)), d) if vs else None)(self.vars_of(LINT))),
            ("list.slice_of_literal", 1.5, lambda: self.slice_of("list", ("list", [("int", r.randint(0, 9)) for _ in range(r.randint(3, 6))]), d)),
            ("list.comp", 3, lambda: self.listcomp(d)),
            ("list.sorted", 0.6, lambda: (lambda vs: ("builtin", "sorted", [("var", r.choice(vs))]) if vs else None)(self.vars_of(LINT))),
        ]
        return self.pick(opts)

    def listcomp(self, d):
        """[body for c in src if cond]: the element and the filter are both non-trivial functions of the comprehension variable, chosen
        so that filtering before or after the mapping, or evaluating them on a neighbouring element, changes the result."""
        r = self.r
        var = self.fresh("c")
        src = self.pick([
            ("comp.over_range", 2, lambda: ("builtin", "range", [("int", r.randint(3, 8))])),
            ("comp.over_range2", 1, lambda: ("builtin", "range", [("int", r.randint(-3, 2)), ("int", r.randint(3, 8))])),
            ("comp.over_range3", 1, lambda: ("builtin", "range", [("int", r.randint(-3, 8)), ("int", r.randint(-3, 8)), r.choice([("int", 2), ("neg", ("int", 1)), ("neg", ("int", 2)), ("int", 3)])])),
            ("comp.over_list", 2, lambda: (lambda vs: ("var", r.choice(vs)) if vs else None)(self.vars_of(LINT))),
            ("comp.over_list_literal", 1, lambda: ("list", [("int", r.randint(0, 9)) for _ in range(r.randint(2, 5))])),
        ])
        self.scopes.append({var: (INT, False)})
        try:
            v = ("var", var)
            body = r.choice([
                lambda: ("bin", "+", v, ("int", r.randint(1, 9))),
                lambda: ("bin", "*", v, ("int", r.randint(2, 7))),
                lambda: ("bin", "-", ("int", r.randint(0, 9)), v),
                lambda: ("bin", "*", v, v),
                lambda: ("bin", r.choice(["+", "*", "-"]), v, self.atom_int()),
                lambda: v,
            ])()
            cond = None
            if self.on("comp.filter", 0.6):
                k = r.randint(2, 4)
                cond = r.choice([
                    lambda: ("cmp", r.choice(["==", "!="]), ("bin", "%", v, ("int", k)), ("int", r.randint(0, k - 1))),
                    lambda: ("cmp", r.choice(["<", ">", "<=", ">=", "!="]), v, ("int", r.randint(1, 5))),
                    lambda: ("cmp", r.choice(["<", ">"]), ("bin", "*", v, v), ("int", r.randint(2, 20))),
                ])()
        finally:
            self.pop_scope()
        return ("listcomp", body, var, src, cond)

    def e_list_str(self, d=0):
        r = self.r
        return self.pick([
            ("liststr.lit", 3, lambda: ("list", [("str", r.choice(WORDS)) for _ in range(r.randint(0 if self.on("liststr.empty", 0.2) else 1, 3))])),
            ("liststr.split", 2, lambda: ("smeth", "split", ("str", r.choice(["a,b,c", "one two", "x", ",a,", "q,r,s"])), [("str", r.choice([",", " "]))])),
            ("liststr.var", 1, lambda: (lambda vs: ("var", r.choice(vs)) if vs else None)(self.vars_of(LSTR))),
        ])

    def e_dict(self, d=0):
        r = self.r
        ks = r.sample(KEYS, r.randint(0 if self.on("dict.empty_literal", 0.2) else 1, 3))
        return ("dict", [(("str", k), self.e_int(2)) for k in ks])

    def e_opt(self, d=0):
        return self.pick([
            ("opt.some", 2, lambda: ("some", self.e_int(2))),
            ("opt.none", 1, lambda: ("none",)),
            ("opt.call", 1, lambda: self.call_of(OINT, d)),
            ("opt.dict_get", 1, lambda: (lambda vs: ("mcall", ("var", self.r.choice(vs)), "get", [("str", self.r.choice(KEYS))]) if vs else None)(self.vars_of(DSI))),
        ])

    def e_of(self, ty, d=0):
        if ty == INT:
            return self.e_int(d)
        if ty == FLOAT:
            return self.e_float(d)
        if ty == BOOL:
            return self.e_bool(d)
        if ty == STR:
            return self.e_str(d)
        if ty == LINT:
            return self.e_list_int(d)
        if ty == LSTR:
            return self.e_list_str(d)
        if ty == LFLOAT:
            return ("list", [("float", self.r.choice([0.5, 1.5, 2.0, 4.0, 0.25, 3.0, 7.5, 10.0])) for _ in range(self.r.randint(1, 4))])
        if ty == DSI:
            return self.e_dict(d)
        if ty == OINT:
            return self.e_opt(d)
        if ty[0] == "model":
            return self.e_model(ty[1], d)
        if ty[0] == "enum":
            return self.e_enum(ty[1], d)
        if ty[0] == "list" and isinstance(ty[1], tuple) and ty[1][0] == "model":
            return ("list", [self.e_model(ty[1][1], d + 1) for _ in range(self.r.randint(2, 3))])
        raise ValueError(ty)

    def call_of(self, ty, d):
        fs = [f for f in self.funcs if f[2] == ty and f[0] != self.in_func]
        lfs = [f for f in getattr(self, "list_funcs", []) if f[2] == ty and f[0] != self.in_func]
        if lfs and (not fs or self.r.random() < 0.5):
            name, lt, _ret, is_mut = self.r.choice(lfs)
            arg = None
            if is_mut:
                # a `mut` parameter aliases the caller's (mutable) list; only at statement level: inside `v.append(f(v))` the
                # argument would borrow the receiver a second time (rustc E0499, open finding C02-mut-argument-aliases-receiver)
                vs = self.vars_of(lt, True) if d == 0 else []
                if vs:
                    arg = ("var", self.r.choice(vs))
                    self.feat.add("fn.mut_list_param")
            else:
                elem = (lambda: ("int", self.r.randint(-5, 9))) if lt == LINT else (lambda: ("float", self.r.choice([0.5, 1.5, 2.0, 4.0, 0.25, 3.0, 7.5])))
                arg = ("list", [elem() for _ in range(self.r.randint(1, 4))])
            if arg is not None:
                self.feat.add("fn.list_param")
                return ("call", name, [arg])
        if not fs:
            return None
        name, ptys, _ = self.r.choice(fs)
        return ("call", name, [self.e_of(t, d + 2) for t in ptys])

    def model_fields(self, mname):
        for m in self.models:
            if m[0] == mname:
                return m[1]
        return []

    def places(self, want_mut=None):
        """(place expression, leaf type, feature or None) for every primitive field reachable from a visible model variable
        (v.f, v.child.f) or from an element of a visible list of models (xs[0].f, xs[-1].child.f)."""
        out = []

        def walk(base, mname, feat, depth):
            for fn, ft in self.model_fields(mname):
                e = ("field", base, fn)
                if isinstance(ft, tuple) and ft[0] == "model":
                    if depth < 2:
                        walk(e, ft[1], (feat + "+nested") if feat else "place.nested_field", depth + 1)
                else:
                    out.append((e, ft, feat))
        for m in self.models:
            for v in self.vars_of(("model", m[0]), want_mut):
                walk(("var", v), m[0], None, 0)
            for v in self.vars_of(("list", ("model", m[0])), want_mut):
                for i in (("int", 0), ("int", 1), ("neg", ("int", 1))):
                    walk(("idx", "list", ("var", v), i), m[0], "place.list_elem_field", 0)
        return [(e, t, f) for (e, t, f) in out if f is None or f.split("+")[0] not in self.avoid and not (f.endswith("+nested") and "place.nested_field" in self.avoid)]

    def field_of(self, ty):
        cands = []
        for e, ft, feat in self.places():
            if ft == ty:
                cands.append((e, feat))
        if cands and not (self.in_func and self.in_func.startswith("method:")):
            e, feat = self.r.choice(cands)
            if feat:
                if ty == STR and feat.startswith("place.list_elem") and not self.on("place.list_elem_str_read", 1.0):
                    return None
                for f in feat.split("+"):
                    self.feat.add("place.nested_field" if f == "nested" else f)
            return e
        cands = []
        if self.in_func and self.in_func.startswith("method:"):
            mname = self.in_func.split(":")[1]
            for m in self.models:
                if m[0] == mname:
                    for fn, ft in m[1]:
                        if ft == ty:
                            cands.append(("field", ("var", "self"), fn))
        return self.r.choice(cands) if cands else None

    def method_of(self, ty, d):
        cands = []
        for mname, fields, methods in [(m[0], m[1], m[2]) for m in self.models]:
            for v in self.vars_of(("model", mname)):
                for (meth, ptys, ret, mut) in methods:
                    if ret == ty and not mut:
                        cands.append((v, meth, ptys))
        if not cands:
            return None
        v, meth, ptys = self.r.choice(cands)
        return ("mcall", ("var", v), meth, [self.e_of(t, d + 2) for t in ptys])

    def e_model(self, mname, d):
        for m in self.models:
            if m[0] == mname:
                fields = m[1]
                defaults = m[3] if len(m) > 3 else {}
                args = []
                for fn, ft in fields:
                    if fn in defaults and self.on("model.ctor_uses_default", 0.4):
                        continue
                    args.append((fn, self.owned(ft, d + 2)))
                self.r.random() < 0.3 and self.on("model.ctor_reordered", 1.0) and self.r.shuffle(args)
                return ("ctor", mname, args)
        raise ValueError(mname)

    def owned(self, ty, d):
        """A value handed over to a field/constructor: never a bare str variable (copy-vs-move of strings is undocumented)."""
        for _ in range(6):
            e = self.e_of(ty, d)
            if ty == STR and e[0] == "field" and not self.on("own.str_field", 1.0):
                continue  # `U(tag=v.tag)` moves the field out of v (known finding C02-str-ownership)
            if ty == STR and e[0] == "idx" and e[1] == "list" and not self.on("own.str_list_elem", 1.0):
                continue  # `U(tag=xs[0])`: &str where String is expected (known finding C02-str-collections-and-class-from-json)
            if not (ty == STR and e[0] == "var"):
                return e
        return ("str", self.r.choice(WORDS)) if ty == STR else e

    def e_enum(self, ename, d):
        for e in self.enums:
            if e[0] == ename:
                vname, vtys = self.r.choice(e[1])
                return ("variant", ename, vname, [self.e_of(t, d + 2) for t in vtys])
        raise ValueError(ename)

    # ---------------- statements ----------------
    def print_of(self, ty, e):
        """Observation statements for a value of type ty (rendering-neutral forms only)."""
        if ty in (INT, STR, FLOAT):
            return [("print", e)]
        if ty == BOOL:
            return [("printb", e)]
        if ty in (LINT, LSTR, LFLOAT):
            v = self.fresh("it")
            return [("print", ("len", e)), ("for", v, e, [("print", ("var", v))])]
        if ty == DSI:
            out = [("print", ("len", e))]
            for k in self.r.sample(KEYS, 2):
                out.append(("printb", ("in", False, ("str", k), e)))
            return out
        if ty == OINT:
            b = self.fresh("o")
            style = "case" if self.on("match.case_style", 0.3) else "arrow"
            return [("match", e, [(("ctor", "Some", [("bind", b)]), [("print", ("var", b))]), (("ctor", "None", []), [("print", ("str", "none"))])], style)]
        if ty[0] == "model":
            out = []
            for m in self.models:
                if m[0] == ty[1]:
                    for fn, ft in m[1]:
                        out += self.print_of(ft, ("field", e, fn))
            return out
        if ty[0] == "list" and isinstance(ty[1], tuple) and ty[1][0] == "model":
            out = [("print", ("len", e))]
            for i in (("int", 0), ("neg", ("int", 1))):
                for fn, ft in self.model_fields(ty[1][1]):
                    if ft in (INT, FLOAT, BOOL):
                        out += self.print_of(ft, ("field", ("idx", "list", e, i), fn))
            return out
        if ty[0] == "enum":
            return self.match_enum(ty[1], e, observe=True)
        raise ValueError(ty)

    def match_enum(self, ename, subj, observe=False):
        for en in self.enums:
            if en[0] == ename:
                arms = []
                variants = list(en[1])
                use_wild = len(variants) > 1 and self.on("match.wildcard", 0.3)
                if use_wild:
                    dropped = variants.pop()
                qual = not self.on("match.unqualified_pattern", 0.4)
                for vname, vtys in variants:
                    binds = []
                    for _ in vtys:
                        b = self.fresh("p")
                        while b in binds:  # a dead name may be reused, but not twice in one pattern
                            self.nvar += 1
                            b = "p%d" % self.nvar
                        binds.append(b)
                    pat = ("ctor", (ename + "." + vname) if qual else vname, [("bind", b) for b in binds])
                    self.scopes.append({b: (t, False) for b, t in zip(binds, vtys)})
                    body = [("print", ("str", vname))]
                    for b, t in zip(binds, vtys):
                        body += self.print_of(t, ("var", b))
                    if not observe:
                        body += self.block(2, maxn=2)
                    self.pop_scope()
                    arms.append((pat, body))
                if use_wild:
                    arms.append((("wild",), [("print", ("str", "other"))]))
                style = "case" if self.on("match.case_style", 0.3) else "arrow"
                return [("match", subj, arms, style)]
        raise ValueError(ename)

    def new_var_stmt(self, d):
        r = self.r
        tys = [INT] * 5 + [STR] * 3 + [FLOAT] * 2 + [BOOL] * 2 + [LINT] * 2 + [LSTR, DSI, OINT]
        if "decl.list_float" not in self.avoid:
            tys.append(LFLOAT)
        tys += [("model", m[0]) for m in self.models] * 2 + [("enum", e[0]) for e in self.enums]
        if self.models and "decl.list_of_models" not in self.avoid:
            tys += [("list", ("model", m[0])) for m in self.models]
        ty = r.choice(tys)
        if ty[0] == "list" and isinstance(ty[1], tuple):
            self.feat.add("decl.list_of_models")
        e = self.e_of(ty, 0)
        for _ in range(5):
            # a binding initialised directly from another str/collection variable aliases it (copy-vs-move is undocumented)
            if e[0] == "var" and ty not in (INT, FLOAT, BOOL):
                e = self.e_of(ty, 0)
        if e[0] == "var" and ty not in (INT, FLOAT, BOOL):
            return None
        if ty == STR and e[0] == "field" and not self.on("own.str_field", 1.0):
            return None  # `v = w.name` moves the field out of w (known finding C02-str-ownership)
        name = self.fresh()
        kind = self.pick([("let.inferred", 4, lambda: "inferred"), ("let.let", 1.5, lambda: "let"), ("let.mut", 4, lambda: "mut")])
        annotate = self.on("let.annotated", 0.35) or (ty in (LINT, LSTR, DSI, OINT, LFLOAT) and e[0] in ("list", "dict", "none") )
        from incanref import pp_type  # noqa
        st = ("let", kind, name, ty if annotate else None, e)
        self.declare(name, ty, kind == "mut")
        return [st] + (self.print_of(ty, ("var", name)) if r.random() < 0.6 else [])

    def mutate_stmt(self, d):
        r = self.r
        opts = [
            ("assign.int", 3, lambda: self.plain_assign(INT)),
            ("assign.str", 1.5, lambda: self.plain_assign(STR)),
            ("aug.int", 4, lambda: (lambda vs: [("aug", r.choice(["+", "-", "*", "//", "%"]), ("var", r.choice(vs)), self.operand_int(1))] if vs else None)(self.vars_of(INT, True))),
            ("aug.float", 2, lambda: (lambda vs: [("aug", r.choice(["+", "-", "*", "/", "//", "%"]), ("var", r.choice(vs)), r.choice([self.atom_float(), self.atom_int()]))] if vs else None)(self.vars_of(FLOAT, True))),
            ("aug.str_lit", 1, lambda: (lambda vs: [("aug", "+", ("var", r.choice(vs)), ("str", r.choice(WORDS)))] if vs else None)(self.vars_of(STR, True))),
            ("aug.str_var", 0.6, lambda: (lambda vs, ws: [("aug", "+", ("var", r.choice(vs)), ("var", r.choice(ws)))] if vs and ws else None)(self.vars_of(STR, True), self.vars_of(STR))),
            ("list.append", 2, lambda: (lambda vs: [("expr", ("mcall", ("var", r.choice(vs)), "append", [self.e_int(2)]))] if vs else None)(self.vars_of(LINT, True))),
            ("list.set", 1.5, lambda: (lambda vs: [("setidx", ("var", r.choice(vs)), self.index_expr(1), self.e_int(2))] if vs else None)(self.vars_of(LINT, True))),
            ("list.aug_elem", 0.8, lambda: (lambda vs: [("aug", r.choice(["+", "*", "-"]), ("idx", "list", ("var", r.choice(vs)), ("int", 0)), self.atom_int())] if vs else None)(self.vars_of(LINT, True))),
            ("dict.set", 1.5, lambda: (lambda vs: [("setidx", ("var", r.choice(vs)), ("str", r.choice(KEYS)), self.e_int(2))] if vs else None)(self.vars_of(DSI, True))),
            ("field.set", 3, lambda: self.field_set()),
            ("field.aug", 1.5, lambda: self.field_set(aug=True)),
            ("method.mut_call", 1.5, lambda: self.mut_method_call()),
        ]
        return self.pick(opts)

    def plain_assign(self, ty):
        """`x = e` on a mut variable. From a nested block it must still reassign the outer binding (documented scoping rule)."""
        local = [n for n, (t, m) in self.scopes[-1].items() if t == ty and m]
        outer = [n for n in self.vars_of(ty, True) if n not in local]
        if outer and "assign.nested_plain" not in self.avoid and self.r.random() < 0.5:
            self.feat.add("assign.nested_plain")
            return [("assign", self.r.choice(outer), self.e_of(ty, 1))]
        if local:
            return [("assign", self.r.choice(local), self.e_of(ty, 1))]
        return None

    def field_set(self, aug=False):
        cands = []
        for e, ft, feat in self.places(True):
            if ft == INT or (ft == STR and not aug and feat is None and "field.set_str" not in self.avoid):
                cands.append((e, ft, feat))
        if not cands:
            return None
        # prefer the deeper places when there are any: they are the rarer ones
        deep = [c for c in cands if c[2]]
        e, ft, feat = self.r.choice(deep if deep and self.r.random() < 0.6 else cands)
        if feat:
            for f in feat.split("+"):
                self.feat.add("place.nested_field" if f == "nested" else f)
            self.feat.add("assign.through_place")
        if aug:
            return [("aug", self.r.choice(["+", "-", "*"]), e, self.operand_int(1))] + self.print_of(ft, e)
        if ft == STR:
            self.feat.add("field.set_str")
        return [("setfield", e[1], e[2], self.owned(ft, 1))] + self.print_of(ft, e)

    def mut_method_call(self):
        cands = []
        for mname, fields, methods in [(m[0], m[1], m[2]) for m in self.models]:
            for v in self.vars_of(("model", mname), True):
                for (meth, ptys, ret, mut) in methods:
                    if mut:
                        cands.append((v, mname, meth, ptys))
        if not cands:
            return None
        v, mname, meth, ptys = self.r.choice(cands)
        return [("expr", ("mcall", ("var", v), meth, [self.e_of(t, 2) for t in ptys]))] + self.print_of(("model", mname), ("var", v))

    def block(self, d, maxn=4):
        self.scopes.append({})
        out = []
        for _ in range(self.r.randint(1, maxn)):
            out += self.stmt(d)
        self.pop_scope()
        return out

    def stmt(self, d):
        r = self.r
        opts = [
            ("stmt.new_var", 6, lambda: self.new_var_stmt(d)),
            ("stmt.mutate", 5, lambda: self.try_(lambda: self.mutate_stmt(d))),
            ("stmt.print_expr", 4, lambda: (lambda ty: self.print_of(ty, self.e_of(ty, 0)))(r.choice([INT, INT, STR, FLOAT, BOOL, BOOL]))),
        ]
        if self.loop_depth > 0:
            opts.append(("stmt.break_guarded", 0.8, lambda: [("if", [(self.e_bool(1), [("break",)])], None)]))
            opts.append(("stmt.continue_guarded", 0.8, lambda: [("if", [(self.e_bool(1), [("continue",)])], None)]))
        if d < 3:
            opts += [
                ("stmt.if", 3, lambda: self.if_stmt(d)),
                ("stmt.while", 1.5, lambda: self.while_stmt(d)),
                ("stmt.for_range", 2, lambda: self.for_range(d)),
                ("stmt.for_list", 1.5, lambda: self.for_list(d)),
                ("stmt.for_str", 0.7, lambda: self.for_str(d)),
                ("stmt.match_enum", 1.5, lambda: (lambda vs: self.match_enum(vs[0][1], ("var", vs[1])) if vs else None)(self.enum_var())),
                ("stmt.match_opt", 1, lambda: (lambda vs: self.print_of(OINT, ("var", r.choice(vs))) if vs else None)(self.vars_of(OINT))),
                ("stmt.match_int", 0.8, lambda: self.match_int(d)),
                ("stmt.shadow_block", 1, lambda: self.shadow_block(d)),
            ]
        return self.pick(opts)

    def try_(self, fn):
        try:
            return fn()
        except ValueError:
            return None

    def enum_var(self):
        c = []
        for e in self.enums:
            for v in self.vars_of(("enum", e[0])):
                c.append((("enum", e[0]), v))
        return self.r.choice(c) if c else None

    def if_stmt(self, d):
        branches = [(self.e_bool(0), self.block(d + 1, 3))]
        if self.on("if.elif", 0.4):
            for _ in range(self.r.randint(1, 2)):
                branches.append((self.e_bool(0), self.block(d + 1, 2)))
        els = self.block(d + 1, 2) if self.on("if.else", 0.5) else None
        return [("if", branches, els)]

    def while_stmt(self, d):
        w = self.fresh("w")
        n = self.r.randint(0, 4)
        self.declare(w, INT, True)
        self.loop_depth += 1
        body = [("aug", "+", ("var", w), ("int", 1))] + self.block(d + 1, 3)
        self.loop_depth -= 1
        return [("let", "mut", w, None, ("int", 0)), ("while", ("cmp", "<", ("var", w), ("int", n)), body)]

    def for_range(self, d):
        r = self.r
        v = self.fresh("i")
        args = self.pick([
            ("range.1", 3, lambda: [("int", r.randint(0, 4))]),
            ("range.2", 2, lambda: [("int", r.randint(-2, 2)), ("int", r.randint(0, 5))]),
            ("range.3", 2, lambda: [("int", r.randint(-3, 6)), ("int", r.randint(-3, 6)), r.choice([("int", 2), ("neg", ("int", 1)), ("neg", ("int", 2)), ("int", 3), ("int", 1)])]),
            ("range.var", 1, lambda: [self.atom_int()]),
        ])
        self.scopes.append({v: (INT, False)})
        self.loop_depth += 1
        body = [("print", ("var", v))] + self.block(d + 1, 2)
        self.loop_depth -= 1
        self.pop_scope()
        return [("for", v, ("builtin", "range", args), body)]

    def for_list(self, d):
        vs = self.vars_of(LINT, False)  # iterate only over immutable lists: the body must not mutate what it iterates
        v = self.fresh("x")
        src = ("var", self.r.choice(vs)) if vs and self.r.random() < 0.7 else ("list", [self.e_int(2) for _ in range(self.r.randint(0 if self.on("for.empty_list_literal", 0.2) else 1, 3))])
        self.scopes.append({v: (INT, False)})
        self.loop_depth += 1
        body = [("print", ("bin", "+", ("var", v), ("int", 1)))] + self.block(d + 1, 2)
        self.loop_depth -= 1
        self.pop_scope()
        return [("for", v, src, body)]

    def for_str(self, d):
        v = self.fresh("ch")
        self.scopes.append({v: (STR, False)})
        self.loop_depth += 1
        body = [("print", ("var", v))]
        self.loop_depth -= 1
        self.pop_scope()
        return [("for", v, self.atom_str(), body)]

    def match_int(self, d):
        subj = self.e_int(1)
        arms = []
        for lit in self.r.sample([0, 1, 2, 3, 5], self.r.randint(1, 3)):
            arms.append((("lit", ("int", lit)), [("print", ("str", "is%d" % lit))]))
        guarded = self.on("match.guard", 0.3)
        if guarded:
            g = self.fresh("m")
            gv = ("var", g)
            conds = [lambda: ("cmp", self.r.choice([">", "<", ">="]), gv, ("int", self.r.randint(0, 6))),
                     lambda: ("cmp", "==", ("bin", "%", gv, ("int", 2)), ("int", self.r.randint(0, 1)))]
            if self.on("match.guard_set", 0.5):
                conds = [lambda: ("in", self.r.random() < 0.3, gv, ("set", [("int", x) for x in self.r.sample(range(0, 9), self.r.randint(1, 3))]))]
            arms.append((("guard", ("bind", g), self.r.choice(conds)()), [("print", ("str", "guarded")), ("print", gv)]))
        b = self.fresh("m")
        arms.append(self.r.choice([(("wild",), [("print", ("str", "other"))]), (("bind", b), [("print", ("var", b))])]))
        # guards exist in the `case P if g:` spelling only
        return [("match", subj, arms, "case" if guarded or self.on("match.case_style", 0.3) else "arrow")]

    def shadow_block(self, d):
        """Nested block that (a) reassigns an outer mut variable and (b) introduces a block-local name reused after the block."""
        vs = self.vars_of(INT, True)
        if not vs:
            return None
        outer = self.r.choice(vs)
        loc = self.fresh("blk")
        inner = [("let", "inferred", outer, None, ("bin", "+", ("var", outer), ("int", 1))),
                 ("let", "inferred", loc, None, ("int", self.r.randint(10, 20))), ("print", ("var", loc))]
        out = [("if", [(("bool", True), inner)], None), ("print", ("var", outer)),
               ("let", "inferred", loc, None, ("int", self.r.randint(30, 40))), ("print", ("var", loc))]
        self.declare(loc, INT, False)
        return out

    # ---------------- declarations ----------------
    def make_helpers(self):
        r = self.r
        P = "c%s_" % self.cid
        n = r.randint(1, 3)
        for k in range(n):
            ret = r.choice([INT, INT, STR, BOOL, FLOAT, OINT])
            ptys = [r.choice([INT, INT, STR, FLOAT]) for _ in range(r.randint(0, 3))]
            name = P + "f%d" % k
            params = []
            self.scopes.append({})
            for i, t in enumerate(ptys):
                pn = "p%d" % i
                dflt = None
                if i == len(ptys) - 1 and self.on("fn.default_param", 0.25):
                    dflt = {INT: ("int", 3), STR: ("str", "d"), FLOAT: ("float", 1.5)}[t]
                params.append((pn, t, dflt))
                self.declare(pn, t, False)
            self.in_func = name
            body = []
            if self.on("fn.early_return", 0.4):
                body.append(("if", [(self.e_bool(1), [("return", self.e_of(ret, 1))])], None))
            if self.on("fn.local_work", 0.5):
                body += self.block(2, 2)
            body.append(("return", self.e_of(ret, 0)))
            self.in_func = None
            self.pop_scope()
            self.decls.append({"kind": "func", "name": name, "params": params, "ret": ret, "body": body})
            # callers pass all params positionally; trailing default may be omitted
            if params and params[-1][2] is not None and r.random() < 0.5:
                self.funcs.append((name, ptys[:-1], ret))
            else:
                self.funcs.append((name, ptys, ret))
        self.list_funcs = []
        if self.on("fn.list_param", 0.5):
            # reductions over a numeric list that arrives as a parameter - by value, or as a `mut` parameter that aliases the caller's list
            for k in range(r.randint(1, 2)):
                T = r.choice([INT, FLOAT])
                lt = LINT if T == INT else LFLOAT
                is_mut = "fn.mut_list_param" not in self.avoid and r.random() < 0.5
                lit = (lambda: ("int", r.randint(0, 9))) if T == INT else (lambda: ("float", r.choice([0.5, 1.5, 2.0, 9.5])))
                xs = ("var", "xs")
                body = []
                if is_mut:
                    body.append(r.choice([("setidx", xs, ("int", 0), lit()), ("expr", ("mcall", xs, "append", [lit()]))]))
                red = r.choice(["min", "max", "sum", "first", "spread", "sorted0", "len"])
                if red == "sum" and T == FLOAT:
                    red = "max"  # the checker types sum() as int whatever the element type: the program would be rejected
                ret = T
                if red in ("min", "max", "sum"):
                    e = ("builtin", red, [xs])
                elif red == "first":
                    e = ("idx", "list", xs, ("int", 0))
                elif red == "spread":
                    e = ("bin", "-", ("builtin", "max", [xs]), ("builtin", "min", [xs]))
                elif red == "sorted0":
                    e = ("idx", "list", ("builtin", "sorted", [xs]), ("int", 0))
                else:
                    e, ret = ("len", xs), INT
                body.append(("return", e))
                name = P + "agg%d" % k
                self.decls.append({"kind": "func", "name": name, "params": [("xs", lt, None, is_mut)], "ret": ret, "body": body})
                self.list_funcs.append((name, lt, ret, is_mut))
        if self.on("fn.recursive", 0.3):
            name = P + "rec"
            body = [("if", [(("cmp", "<=", ("var", "n"), ("int", 1)), [("return", ("int", 1))])], None),
                    ("return", ("bin", r.choice(["*", "+"]), ("var", "n"), ("call", name, [("bin", "-", ("var", "n"), ("int", 1))])))]
            self.decls.append({"kind": "func", "name": name, "params": [("n", INT, None)], "ret": INT, "body": body})
            self.funcs.append((name, [INT], INT))

    def make_models(self):
        r = self.r
        P = "C%s" % self.cid
        for k in range(r.choice([0, 1, 2, 2, 3])):
            name = P + r.choice(["Point", "User", "Acc", "Box"]) + str(k)
            kind = "class" if self.on("decl.class", 0.3) else "model"
            fields = []
            defaults = {}
            for i in range(r.randint(1, 4)):
                ft = r.choice([INT, INT, STR, FLOAT, BOOL])
                fn = r.choice(["x", "y", "n", "name", "tag", "w", "total", "flag"]) + str(i)
                fields.append((fn, ft))
            if self.models and kind == "model" and self.on("model.nested_field", 0.7):
                # a field whose type is an earlier model: places like v.child.x / xs[0].child.x become expressible
                fields.append(("child%d" % k, ("model", self.r.choice(self.models)[0])))
            fdecl = []
            for i, (fn, ft) in enumerate(fields):
                dflt = None
                if i == len(fields) - 1 and self.on("model.field_default", 0.3):
                    dflt = {INT: ("int", 7), STR: ("str", "dflt"), FLOAT: ("float", 0.5), BOOL: ("bool", True)}.get(ft)
                if dflt is not None:
                    defaults[fn] = dflt
                fdecl.append((fn, ft, dflt))
            methods, msigs = [], []
            intf = [fn for fn, ft in fields if ft == INT]
            self.in_func = "method:" + name
            if intf and self.on("model.method_getter", 0.6):
                self.scopes.append({"p0": (INT, False)})
                body = [("return", ("bin", "+", ("field", ("var", "self"), intf[0]), ("bin", "*", ("var", "p0"), ("int", r.randint(1, 3)))))]
                self.pop_scope()
                methods.append({"name": "calc", "recv": "self", "params": [("p0", INT, None)], "ret": INT, "body": body})
                msigs.append(("calc", [INT], INT, False))
            if intf and self.on("model.method_mut", 0.6):
                body = [("setfield", ("var", "self"), intf[0], ("bin", "+", ("field", ("var", "self"), intf[0]), ("var", "p0")))]
                if self.on("model.method_mut_aug", 0.4):
                    body = [("aug", "+", ("field", ("var", "self"), intf[0]), ("var", "p0"))]
                methods.append({"name": "bump", "recv": "mut self", "params": [("p0", INT, None)], "ret": "None", "body": body})
                msigs.append(("bump", [INT], "None", True))
            strf = [fn for fn, ft in fields if ft == STR]
            if strf and self.on("model.method_str", 0.4):
                body = [("return", ("fstr", ["<", ("field", ("var", "self"), strf[0]), ">"]))]
                methods.append({"name": "label", "recv": "self", "params": [], "ret": STR, "body": body})
                msigs.append(("label", [], STR, False))
            self.in_func = None
            self.decls.append({"kind": kind, "name": name, "fields": fdecl, "methods": methods})
            self.models.append((name, fields, msigs, defaults))

    def make_enums(self):
        r = self.r
        P = "C%s" % self.cid
        for k in range(r.randint(0, 1) if not self.on("decl.enum", 0.5) else 1):
            name = P + r.choice(["Shape", "Cmd", "Tok"]) + str(k)
            vs = []
            for vn in r.sample(["Circle", "Rect", "Empty", "Move", "Stop", "Num", "Word"], r.randint(1, 4)):
                ptys = [r.choice([INT, FLOAT] + ([STR] if self.on("enum.payload_str", 0.5) else [])) for _ in range(r.randint(0, 2))] if self.on("enum.payload", 0.6) else []
                vs.append((vn, ptys))
            self.decls.append({"kind": "enum", "name": name, "variants": vs})
            self.enums.append((name, vs))

    def case(self, nstmts=None):
        self.make_models()
        self.make_enums()
        self.make_helpers()
        body = []
        n = self.r.randint(4, 12) if nstmts is None else nstmts
        # when the declarations allow deep places (a model inside a model, a list of models), make sure a mutable root exists early:
        # otherwise writes through `v.child.x` / `xs[0].x` stay a once-in-a-hundred-cases event
        deep = [m for m in self.models if any(isinstance(ft, tuple) and ft[0] == "model" for _, ft in m[1])]
        if deep and self.on("place.seed_root", 0.7):
            m = self.r.choice(deep)
            name = self.fresh()
            body.append(("let", "mut", name, None, self.e_model(m[0], 0)))
            self.declare(name, ("model", m[0]), True)
        elif self.models and "decl.list_of_models" not in self.avoid and self.on("place.seed_list_root", 0.25):
            m = self.r.choice(self.models)
            name = self.fresh()
            ty = ("list", ("model", m[0]))
            body.append(("let", "mut", name, None, self.e_of(ty, 0)))
            self.declare(name, ty, True)
            self.feat.add("decl.list_of_models")
        for (fname, lt, fret, is_mut) in getattr(self, "list_funcs", []):
            if is_mut and self.r.random() < 0.7:
                # a mutable list handed to a `mut` parameter: the callee's writes are the caller's
                name = self.fresh()
                body.append(("let", "mut", name, lt, self.e_of(lt, 0) if lt == LFLOAT else ("list", [("int", self.r.randint(0, 9)) for _ in range(self.r.randint(1, 4))])))
                self.declare(name, lt, True)
                self.feat.add("fn.mut_list_param")
                self.feat.add("fn.list_param")
                body += self.print_of(fret, ("call", fname, [("var", name)])) + self.print_of(lt, ("var", name))
        seeded = len(body) > 0
        for k in range(n):
            if seeded and k in (1, 3) and self.r.random() < 0.6:
                st = self.try_(lambda: self.field_set(aug=self.r.random() < 0.4))
                if st:
                    body += st
                    continue
            body += self.stmt(0)
        self.decls.append({"kind": "func", "name": "case_%s" % self.cid, "params": [], "ret": "None", "body": body})
        return {"id": self.cid, "decls": self.decls, "features": set(self.feat), "entry": "case_%s" % self.cid}


def gen_case(rng, cid, avoid=(), nstmts=None):
    for _ in range(200):
        g = Gen(random.Random(rng.getrandbits(48)), cid, avoid)
        try:
            c = g.case(nstmts)
            import incanref
            incanref.pp_program(c["decls"])  # raises Unprintable if a tree needs grouping parentheses
            return c
        except (ValueError, IndexError):
            continue
    raise RuntimeError("generator could not produce a case")
