"""Generator of small projects that exercise everything which reaches the generated Cargo project / output ordering:
feature triggers (serde derives, json_stringify placements, async, rust:: imports), several types/traits, multi-file layouts."""
import random

KNOWN_CRATES = ["serde_json", "rand", "regex", "anyhow", "log", "chrono", "uuid", "itertools", "bytes", "futures", "thiserror", "tracing"]
UNKNOWN_CRATES = ["polars", "my_crate", "left_pad", "zzz_unknown"]
RUST_ITEMS = {"serde_json": "Value", "rand": "Rng", "regex": "Regex", "anyhow": "Error", "log": "Level", "chrono": "Utc", "uuid": "Uuid",
              "itertools": "Itertools", "bytes": "Bytes", "futures": "Future", "thiserror": "Error", "tracing": "Level"}


def model_block(r, name, serde):
    ders = []
    if serde:
        ders = r.choice([["Serialize"], ["Serialize", "Deserialize"], ["Deserialize", "Serialize"], ["Debug", "Serialize"]])
    elif r.random() < 0.4:
        ders = r.sample(["Debug", "Clone", "Eq"], r.randint(1, 2))
    lines = []
    if ders:
        lines.append("@derive(%s)" % ", ".join(ders))
    lines.append("model %s:" % name)
    for i in range(r.randint(1, 3)):
        lines.append("    f%d: %s" % (i, r.choice(["int", "str", "bool", "float"])))
    return lines


def json_call_placement(r, var):
    """Statements that call json_stringify(var) in a chosen placement."""
    call = "println(json_stringify(%s))" % var
    p = r.choice(["stmt", "if", "elif", "else", "for", "while", "match_arm", "nested"])
    if p == "stmt":
        body = [call]
    elif p == "if":
        body = ["if 1 < 2:", "    " + call]
    elif p == "elif":
        body = ["if 1 > 2:", "    pass", "elif 1 < 2:", "    " + call]
    elif p == "else":
        body = ["if 1 > 2:", "    pass", "else:", "    " + call]
    elif p == "for":
        body = ["for i in range(1):", "    " + call]
    elif p == "while":
        body = ["mut w = 0", "while w < 1:", "    w += 1", "    " + call]
    elif p == "match_arm":
        body = ["match 1:", "    1 =>", "        " + call, "    _ =>", "        pass"]
    else:
        body = ["for i in range(1):", "    if i == 0:", "        " + call]
    return p, body


def gen_project(r, allow_unknown=True, multi=None):
    """Returns {"name", "files", "entry", "features": set, "expect_crates": set, "unknown_crate": str|None}"""
    feats = set()
    name = r.choice(["prog", "my_app", "app2", "x", "data_tool", "p1_q"])
    decls = []
    imports = []
    expect = {"incan_stdlib", "incan_derive"}
    unknown = None
    # rust imports
    nrust = r.choice([0, 0, 1, 2, 4, 6])
    crates = r.sample(KNOWN_CRATES, min(nrust, len(KNOWN_CRATES)))
    r.shuffle(crates)
    for c in crates:
        if r.random() < 0.5:
            imports.append("import rust::%s" % c)
            feats.add("rust.import_crate")
        else:
            imports.append("from rust::%s import %s" % (c, RUST_ITEMS[c]))
            feats.add("rust.from_import")
        expect.add(c)
    if r.random() < 0.3:
        imports.append(r.choice(["from rust::std::collections import HashMap", "import rust::std::fs", "from rust::std::time import Instant"]))
        feats.add("rust.std")
    if allow_unknown and r.random() < 0.15:
        unknown = r.choice(UNKNOWN_CRATES)
        imports.insert(r.randint(0, len(imports)), r.choice(["import rust::%s", "from rust::%s import Thing"]) % unknown)
        feats.add("rust.unknown_crate")
    serde = r.random() < 0.5
    json_use = serde and r.random() < 0.7
    nmodels = r.randint(1, 3)
    mnames = ["M%d" % i for i in range(nmodels)]
    serde_idx = r.randrange(nmodels) if serde else -1
    dep_module = None
    multi = (r.random() < 0.3) if multi is None else multi
    main_body = []
    for i, mn in enumerate(mnames):
        blk = model_block(r, mn, i == serde_idx)
        if multi and i == serde_idx and r.random() < 0.5:
            dep_module = ["pub " + l if l.startswith("model ") else l for l in blk]
            feats.add("serde.only_in_dependency_module")
        else:
            decls.append(blk)
    if serde:
        feats.add("serde.derive")
    if r.random() < 0.4:
        decls.append(["enum Color%d:" % r.randint(0, 3), "    Red", "    Green(int)"])
    if r.random() < 0.3:
        decls.append(["trait Named%d:" % r.randint(0, 3), "    def name(self) -> str: ..."])
    is_async = r.random() < 0.2
    if is_async:
        feats.add("async")
        decls.append(["async def work() -> int:", "    return 1"])
    if json_use:
        ctor = "%s(%s)" % (mnames[serde_idx], ", ".join("f%d=%s" % (i, "1") for i in range(0)))
        main_body.append("# value")
    main = ["%sdef main() -> None:" % ("async " if is_async else "")]
    body = ["println(1)"]
    if is_async:
        body.append("v = await work()")
        body.append("println(v)")
    if json_use:
        feats.add("json_stringify")
        mn = mnames[serde_idx]
        # construct with concrete field values: re-read declared fields from the block
        blk = (dep_module or [b for b in decls if any(l.startswith("model %s:" % mn) for l in b)][0])
        fields = [l.strip() for l in blk if l.startswith("    f")]
        args = []
        for f in fields:
            fn, ft = f.split(": ")
            args.append("%s=%s" % (fn, {"int": "1", "str": '"s"', "bool": "true", "float": "1.5"}[ft]))
        body.append("v0 = %s(%s)" % (mn, ", ".join(args)))
        placement, stm = json_call_placement(r, "v0")
        feats.add("json_stringify.in_" + placement)
        body += stm
    main += ["    " + l for l in body]
    r.shuffle(decls)
    files = {}
    text = ""
    if dep_module:
        files["shapes.incn"] = "\n".join(dep_module) + "\n"
        imports.append("from shapes import %s" % mnames[serde_idx])
        feats.add("multi_file")
    elif multi:
        files["util.incn"] = "pub def helper() -> int:\n    return 4\n"
        imports.append("from util import helper")
        feats.add("multi_file")
    text += "\n".join(imports) + ("\n\n\n" if imports else "")
    for d in decls:
        text += "\n".join(d) + "\n\n\n"
    text += "\n".join(main) + "\n"
    files[name + ".incn"] = text
    return {"name": name, "files": files, "entry": name + ".incn", "features": feats, "expect_crates": expect, "unknown_crate": unknown}


def gen_illtyped(r):
    """A program that produces several diagnostics from one construct (hash-ordered internals must not leak into the order)."""
    fields = ["alpha", "beta", "gamma", "delta", "eps", "zeta"]
    r.shuffle(fields)
    n = r.randint(3, 6)
    text = "model Big:\n" + "".join("    %s: int\n" % f for f in fields[:n]) + "\n\ndef main() -> None:\n    b = Big()\n    c = Big(%s=1, nope=2, other=3)\n    println(undefined_one + undefined_two)\n" % fields[0]
    return {"name": "bad", "files": {"bad.incn": text}, "entry": "bad.incn", "features": {"illtyped.multi_diag"}, "expect_crates": set(), "unknown_crate": None}
