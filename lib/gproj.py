"""Generator of small projects that exercise everything which reaches the generated Cargo project / output ordering:
feature triggers (serde derives, json_stringify placements, async, rust:: imports), several types/traits, multi-file layouts."""
import random

# includes the crates the compiler also adds on its own (serde, serde_json, tokio): an explicit rust:: import of one of those must not declare it twice
KNOWN_CRATES = ["serde_json", "rand", "regex", "anyhow", "log", "chrono", "uuid", "itertools", "bytes", "futures", "thiserror", "tracing", "tokio", "serde"]
UNKNOWN_CRATES = ["polars", "my_crate", "left_pad", "zzz_unknown"]
RUST_ITEMS = {"serde_json": "Value", "rand": "Rng", "regex": "Regex", "anyhow": "Error", "log": "Level", "chrono": "Utc", "uuid": "Uuid",
              "itertools": "Itertools", "bytes": "Bytes", "futures": "Future", "thiserror": "Error", "tracing": "Level", "tokio": "spawn", "serde": "Serialize", "axum": "Router"}


def model_block(r, name, serde):
    ders = []
    if serde:
        ders = r.choice([["Serialize"], ["Serialize", "Deserialize"], ["Deserialize", "Serialize"], ["Debug", "Serialize"], ["Debug", "Clone", "Deserialize"], ["Serialize", "Debug"]])
    elif r.random() < 0.4:
        ders = r.sample(["Debug", "Clone", "Eq", "Hash", "Ord"], r.randint(1, 4))
    lines = []
    if len(ders) >= 2 and r.random() < 0.4:
        # stacked decorators: the serde derive may sit in any of them
        k = r.randint(1, len(ders) - 1)
        first, second = ders[:k], ders[k:]
        if r.random() < 0.5:
            # the same derive named twice across the decorators (whatever the compiler does with it, it must do it the same way every time)
            second = second + [r.choice(first)]
            r.shuffle(second)
        lines.append("@derive(%s)" % ", ".join(first))
        lines.append("@derive(%s)" % ", ".join(second))
    elif ders:
        lines.append("@derive(%s)" % ", ".join(ders))
    lines.append("%s %s:" % (r.choice(["model", "model", "class"]), name))
    for i in range(r.randint(1, 3)):
        lines.append("    f%d: %s" % (i, r.choice(["int", "str", "bool", "float"])))
    return lines


def json_call_placement(r, var):
    """Statements that call json_stringify(var) in a chosen placement."""
    call = "println(json_stringify(%s))" % var
    p = r.choice(["stmt", "if", "elif", "else", "for", "while", "match_arm", "nested"])
    if p == "stmt":
        body = [call]
    elif p == "if":
        body = ["if 1 < 2:", "    " + call]
    elif p == "elif":
        body = ["if 1 > 2:", "    pass", "elif 1 < 2:", "    " + call]
    elif p == "else":
        body = ["if 1 > 2:", "    pass", "else:", "    " + call]
    elif p == "for":
        body = ["for i in range(1):", "    " + call]
    elif p == "while":
        body = ["mut w = 0", "while w < 1:", "    w += 1", "    " + call]
    elif p == "match_arm":
        body = ["match 1:", "    1 =>", "        " + call, "    _ =>", "        pass"]
    else:
        body = ["for i in range(1):", "    if i == 0:", "        " + call]
    return p, body


def gen_project(r, allow_unknown=True, multi=None):
    """Returns {"name", "files", "entry", "features": set, "expect_crates": set, "unknown_crate": str|None}"""
    feats = set()
    name = r.choice(["prog", "my_app", "app2", "x", "data_tool", "p1_q"])
    decls = []
    imports = []
    expect = {"incan_stdlib", "incan_derive"}
    unknown = None
    # rust imports
    nrust = r.choice([0, 0, 1, 2, 4, 6])
    crates = r.sample(KNOWN_CRATES, min(nrust, len(KNOWN_CRATES)))
    r.shuffle(crates)
    for c in crates:
        if r.random() < 0.5:
            imports.append("import rust::%s" % c)
            feats.add("rust.import_crate")
        else:
            imports.append("from rust::%s import %s" % (c, RUST_ITEMS[c]))
            feats.add("rust.from_import")
        expect.add(c)
    if r.random() < 0.3:
        imports.append(r.choice(["from rust::std::collections import HashMap", "import rust::std::fs", "from rust::std::time import Instant"]))
        feats.add("rust.std")
    if allow_unknown and r.random() < 0.15:
        unknown = r.choice(UNKNOWN_CRATES)
        imports.insert(r.randint(0, len(imports)), r.choice(["import rust::%s", "from rust::%s import Thing"]) % unknown)
        feats.add("rust.unknown_crate")
    serde = r.random() < 0.5
    json_use = serde and r.random() < 0.7
    nmodels = r.randint(1, 3)
    mnames = ["M%d" % i for i in range(nmodels)]
    serde_idx = r.randrange(nmodels) if serde else -1
    dep_module = None
    multi = (r.random() < 0.3) if multi is None else multi
    main_body = []
    for i, mn in enumerate(mnames):
        blk = model_block(r, mn, i == serde_idx)
        if multi and i == serde_idx and r.random() < 0.5:
            dep_module = ["pub " + l if l.startswith(("model ", "class ")) else l for l in blk]
            feats.add("serde.only_in_dependency_module")
        else:
            decls.append(blk)
    if serde:
        feats.add("serde.derive")
    if r.random() < 0.4:
        decls.append(["enum Color%d:" % r.randint(0, 3), "    Red", "    Green(int)"])
    if r.random() < 0.3:
        decls.append(["trait Named%d:" % r.randint(0, 3), "    def name(self) -> str: ..."])
    is_async = r.random() < 0.2
    if is_async:
        feats.add("async")
        decls.append(["async def work() -> int:", "    return 1"])
    if json_use:
        ctor = "%s(%s)" % (mnames[serde_idx], ", ".join("f%d=%s" % (i, "1") for i in range(0)))
        main_body.append("# value")
    is_web = (not is_async) and r.random() < 0.15
    if is_web:
        feats.add("web")
        imports.append("from web import App, route, Response, GET")
        decls.append(['@route("/")', "async def index() -> Response:", '    return Response.html("<h1>hi</h1>")'])
        expect.update({"axum", "tokio", "serde", "serde_json"})
    main = ["%sdef main() -> None:" % ("async " if is_async else "")]
    body = ["println(1)"]
    if is_async:
        body.append("v = await work()")
        body.append("println(v)")
    if json_use:
        feats.add("json_stringify")
        mn = mnames[serde_idx]
        # construct with concrete field values: re-read declared fields from the block
        blk = (dep_module or [b for b in decls if any(l.startswith(("model %s:" % mn, "class %s:" % mn)) for l in b)][0])
        fields = [l.strip() for l in blk if l.startswith("    f")]
        args = []
        for f in fields:
            fn, ft = f.split(": ")
            args.append("%s=%s" % (fn, {"int": "1", "str": '"s"', "bool": "true", "float": "1.5"}[ft]))
        body.append("v0 = %s(%s)" % (mn, ", ".join(args)))
        placement, stm = json_call_placement(r, "v0")
        feats.add("json_stringify.in_" + placement)
        body += stm
    if is_web:
        body += ["app = App()", 'app.run(host="127.0.0.1", port=8080)']
    main += ["    " + l for l in body]
    r.shuffle(decls)
    files = {}
    text = ""
    dep_rust = ""
    if multi and r.random() < 0.4:
        # a rust:: import that only a dependency module makes: the crate must still be declared for the whole project
        c = r.choice([k for k in KNOWN_CRATES if k not in crates] or KNOWN_CRATES)
        dep_rust = r.choice(["import rust::%s\n\n\n" % c, "from rust::%s import %s\n\n\n" % (c, RUST_ITEMS[c])])
        expect.add(c)
        feats.add("rust.import_in_dependency_module")
    if dep_module:
        files["shapes.incn"] = dep_rust + "\n".join(dep_module) + "\n"
        imports.append("from shapes import %s" % mnames[serde_idx])
        feats.add("multi_file")
    elif multi:
        files["util.incn"] = dep_rust + "pub def helper() -> int:\n    return 4\n"
        imports.append("from util import helper")
        feats.add("multi_file")
    text += "\n".join(imports) + ("\n\n\n" if imports else "")
    for d in decls:
        text += "\n".join(d) + "\n\n\n"
    text += "\n".join(main) + "\n"
    files[name + ".incn"] = text
    return {"name": name, "files": files, "entry": name + ".incn", "features": feats, "expect_crates": expect, "unknown_crate": unknown}


GREEK = ["alpha", "beta", "gamma", "delta", "eps", "zeta", "eta", "theta", "iota", "kappa"]


def gen_illtyped(r):
    """A program in which ONE construct produces several diagnostics (or one diagnostic that lists several names): whatever
    hash-ordered table the checker walks to find them must not leak into their order. Families: constructor fields, trait methods
    a model/class fails to implement, @requires fields, wrong trait method signatures, unknown names, missing match variants,
    missing imported items, duplicate declarations."""
    names = GREEK[:]
    r.shuffle(names)
    n = r.randint(3, 7)
    ns = names[:n]
    fam = r.choice(["ctor_fields", "trait_methods_model", "trait_methods_class", "requires_fields", "trait_signatures", "unknown_names",
                    "match_variants", "import_items", "duplicates", "mixed"])
    files = {}
    if fam == "ctor_fields":
        text = "model Big:\n" + "".join("    %s: int\n" % f for f in ns) + "\n\ndef main() -> None:\n    b = Big()\n    c = Big(%s=1, nope=2, other=3)\n    println(undefined_one + undefined_two)\n" % ns[0]
    elif fam in ("trait_methods_model", "trait_methods_class"):
        kw = "model" if fam.endswith("model") else "class"
        have = ns[:r.randint(0, 1)]
        text = "trait Wide:\n" + "".join("    def %s(self) -> int: ...\n" % m for m in ns) + "\n\n%s Impl with Wide:\n    w: int\n" % kw
        text += "".join("\n    def %s(self) -> int:\n        return 1\n" % m for m in have) + "\n\ndef main() -> None:\n    pass\n"
    elif fam == "requires_fields":
        text = "@requires(%s)\ntrait Needs:\n    def get(self) -> int:\n        return 1\n\n\nclass Impl with Needs:\n    other: int\n\n\ndef main() -> None:\n    pass\n" % ", ".join("%s: int" % f for f in ns)
    elif fam == "trait_signatures":
        text = "trait Wide:\n" + "".join("    def %s(self) -> int: ...\n" % m for m in ns) + "\n\nclass Impl with Wide:\n    w: int\n"
        text += "".join("\n    def %s(self) -> str:\n        return \"s\"\n" % m for m in ns) + "\n\ndef main() -> None:\n    pass\n"
    elif fam == "unknown_names":
        text = "def main() -> None:\n" + "".join("    println(%s_missing)\n" % m for m in ns) + "    x = Big(%s)\n" % ", ".join("%s=1" % m for m in ns)
    elif fam == "match_variants":
        caps = [m.capitalize() for m in ns]
        text = "enum Many:\n" + "".join("    %s\n" % c for c in caps) + "\n\ndef main() -> None:\n    v = Many.%s\n    match v:\n        Many.%s => println(1)\n" % (caps[0], caps[0])
    elif fam == "import_items":
        files["lib.incn"] = "pub def present() -> int:\n    return 1\n\n\n" + "".join("def %s_private() -> int:\n    return 2\n\n\n" % m for m in ns)
        text = "from lib import present, %s\n\n\ndef main() -> None:\n    println(present())\n" % ", ".join(["%s_private" % m for m in ns[:3]] + ["%s_absent" % m for m in ns[3:]])
    elif fam == "duplicates":
        text = "".join("def %s() -> int:\n    return 1\n\n\n" % m for m in ns) + "".join("def %s() -> str:\n    return \"s\"\n\n\n" % m for m in ns) + "def main() -> None:\n    pass\n"
    else:
        text = ("trait Wide:\n" + "".join("    def %s(self) -> int: ...\n" % m for m in ns) + "\n\nmodel Big with Wide:\n" + "".join("    %s: int\n" % f for f in ns) +
                "\n\ndef main() -> None:\n    b = Big()\n    println(%s)\n" % " + ".join("%s_missing" % m for m in ns))
    files["bad.incn"] = text
    return {"name": "bad", "files": files, "entry": "bad.incn", "features": {"illtyped.multi_diag", "illtyped." + fam}, "expect_crates": set(), "unknown_crate": None}


def gen_same_name_project(r):
    """Several dependency modules export the same public names with different signatures; the main module imports from all of them
    and uses the shared names. Whatever the compiler decides (first wins, last wins, error), it must decide it the same way every time."""
    mods = r.sample(["metric", "imperial", "alpha_mod", "zeta_mod", "b2", "util"], r.randint(2, 4))
    shared = r.sample(["scale", "label", "make", "size"], r.randint(1, 2))
    tys = ["int", "float", "str", "bool"]
    files = {}
    imports = []
    for i, m in enumerate(mods):
        t = tys[i % len(tys)]
        lines = []
        for sname in shared:
            lines += ["pub def %s(x: %s) -> %s:" % (sname, t, t), "    return x", "", ""]
        lines += ["pub def only_%s() -> int:" % m, "    return %d" % i, ""]
        if r.random() < 0.5:
            lines = ["pub const LIMIT: %s = %s" % (t, {"int": "1", "float": "1.5", "str": '"s"', "bool": "true"}[t]), "", ""] + lines
        files[m + ".incn"] = "\n".join(lines)
        names = ["only_%s" % m] + (shared if i == 0 or r.random() < 0.4 else [])
        r.shuffle(names)
        imports.append("from %s import %s" % (m, ", ".join(names)))
    r.shuffle(imports)
    body = ["    n: int = %s(4)" % shared[0]] + ["    println(only_%s())" % m for m in mods] + ["    println(n)"]
    files["main.incn"] = "\n".join(imports) + "\n\n\ndef main() -> None:\n" + "\n".join(body) + "\n"
    return {"name": "main", "files": files, "entry": "main.incn", "features": {"multi_file", "multi.same_name_exports", "multi.modules_%d" % len(mods)},
            "expect_crates": set(), "unknown_crate": None}
