"""G-syn: grammar-directed generator of syntactically valid Incan files (they need not type-check).

Every optional construct is a named *feature*; a generator instance can be told to avoid a set of features
(the quarantine of open known findings).  `gen_file(rng, avoid)` returns (text, features_used).
"""
import random

KEYWORDS = set("if else elif match case while for break continue return yield pass def fn async await class model trait enum "
               "type newtype with extends pub import from as rust python super crate const let mut self true True false False "
               "None and or not in is".split())

NAMES = ["x", "y", "z", "n", "acc", "item", "value", "idx", "total", "name", "data", "tmp", "k", "v", "count", "a1", "b_2",
         "result", "left", "right", "flag", "msg", "xs", "ys", "cfg", "node", "_u", "size", "w", "h"]
TYPES = ["Point", "User", "Shape", "Config", "Node", "Color", "Item", "Order", "Token2", "Acc", "Key_1"]
TRAITS = ["Describable", "Printable", "Comparable2", "Loggable"]
FUNCS = ["compute", "helper", "make", "process", "run_it", "f1", "g", "build", "check_all", "transform"]
PRIMS = ["int", "float", "str", "bool", "bytes"]
STR_ATOMS = ["a", "b", "hello", " ", "é", "€", "𝄞", "x y", "0", "A_b", "-", ".", ",", "!", "#", "'", "\\\\", "\\n", "\\t", "{{", "}}", "ß"]


class G:
    def __init__(self, rng, avoid=()):
        self.r = rng
        self.avoid = set(avoid)
        self.feat = set()
        self.depth = 0

    # ---- helpers ----
    def on(self, feature, p=0.5):
        """Decide whether to use an optional feature (never if quarantined); records it when used."""
        if feature in self.avoid:
            return False
        if self.r.random() < p:
            self.feat.add(feature)
            return True
        return False

    def pick(self, options):
        """options: list of (feature, weight, fn). Quarantined features are removed."""
        opts = [(f, w, fn) for (f, w, fn) in options if f not in self.avoid]
        if not opts:
            raise ValueError("every alternative is quarantined: %r" % [f for f, _, _ in options])
        tot = sum(w for _, w, _ in opts)
        x = self.r.random() * tot
        for f, w, fn in opts:
            x -= w
            if x <= 0:
                self.feat.add(f)
                return fn()
        f, w, fn = opts[-1]
        self.feat.add(f)
        return fn()

    def name(self):
        return self.r.choice(NAMES)

    def tname(self):
        return self.r.choice(TYPES)

    def ind(self, lines, n=1):
        return [("    " * n) + l if l else l for l in lines]

    # ---- literals ----
    def int_lit(self):
        return self.pick([
            ("lit.int.small", 5, lambda: str(self.r.randint(0, 20))),
            ("lit.int.big", 1, lambda: str(self.r.choice([2 ** 31, 2 ** 53 + 1, 2 ** 63 - 1, 1000000, 255]))),
            ("lit.int.underscore", 0.5, lambda: self.r.choice(["1_000", "12_34", "1_000_000"])),
        ])

    def float_lit(self):
        return self.pick([
            ("lit.float.frac", 4, lambda: self.r.choice(["0.5", "1.25", "3.14", "2.75", "10.125", "0.1", "99.9"])),
            ("lit.float.integral", 2, lambda: self.r.choice(["1.0", "0.0", "2.0", "100.0", "7.0"])),
            ("lit.float.exp", 1, lambda: self.r.choice(["1e10", "1.5e3", "2e-3", "1e300", "5e-324", "1.0e0", "6.02e23"])),
        ])

    def str_body(self, n=None, allow_brace=False):
        n = self.r.randint(0, 4) if n is None else n
        atoms = [a for a in STR_ATOMS if allow_brace or a not in ("{{", "}}")]
        if not allow_brace:
            atoms = atoms + ["{", "}"]
        return "".join(self.r.choice(atoms) for _ in range(n))

    def str_lit(self):
        def dq():
            return '"' + self.str_body().replace("'", self.r.choice(["'", ""])) + self.r.choice(["", '\\"']) + '"'

        def sq():
            return "'" + self.str_body().replace("'", "\\'") + "'"

        def triple():
            body = self.str_body(self.r.randint(0, 3)).replace("\\\\", "bs")
            if self.on("lit.str.triple.multiline", 0.4):
                body = body + "\n" + self.str_body(2).replace("\\\\", "bs") + "\n"
            return '"""' + body.replace('"""', "q") + '"""'

        return self.pick([("lit.str.double", 5, dq), ("lit.str.single", 2, sq), ("lit.str.triple", 1, triple)])

    def docstring(self):
        """A docstring literal with varied layout: text on the opening line or not, blank / whitespace-only / indented / trailing-space
        lines at the edges and in the middle, closing quotes on their own (possibly indented) line."""
        r = self.r
        if not self.on("docstring.multi_line", 0.5):
            self.feat.add("docstring.single_line")
            return ['"""' + r.choice(["Doc.", "Module docs.", "Compute things.", "a", " padded ", "x  "]) + '"""']
        words = ["Docs here.", "Run with: tool x", "  indented line", "trailing space ", "tab\there", "a b", "", "   ", "    ", "\t", "é: ünï", "- item"]
        lines = [r.choice(words) for _ in range(r.randint(1, 4))]
        first = r.choice(["", "", "Summary line.", " "])
        close = r.choice(["", "", "    ", "  ", "\t"])
        if lines[-1].strip() == "" and close == "" and r.random() < 0.5:
            lines.append("end")
        return ['"""' + first] + lines + [close + '"""']

    def bytes_lit(self):
        body = "".join(self.r.choice(["a", "Z", "0", " ", "\\n", "\\t", "\\\\", "\\x00", "\\xff", "\\x7f", "\\0", "~"]) for _ in range(self.r.randint(0, 4)))
        self.feat.add("lit.bytes")
        return 'b"' + body + '"'

    def fstring(self):
        self.feat.add("expr.fstring")
        parts = []
        for _ in range(self.r.randint(1, 3)):
            k = self.r.random()
            if k < 0.45:
                parts.append(self.str_body(self.r.randint(1, 2), allow_brace=True).replace('"', "").replace("'", ""))
            else:
                parts.append("{" + self.fexpr() + "}")
        return 'f"' + "".join(parts) + '"'

    def fexpr(self):
        # expressions inside f-strings: no quotes/braces/newlines
        return self.pick([
            ("fstr.ident", 4, lambda: self.name()),
            ("fstr.field", 2, lambda: self.name() + "." + self.name()),
            ("fstr.binop", 2, lambda: self.name() + " " + self.r.choice(["+", "-", "*"]) + " " + self.int_lit()),
            ("fstr.call", 1, lambda: self.r.choice(FUNCS) + "(" + self.name() + ")"),
            ("fstr.method", 1, lambda: self.name() + "." + self.r.choice(["upper", "len", "strip"]) + "()"),
            ("fstr.index", 1, lambda: self.name() + "[" + self.int_lit() + "]"),
        ])

    # ---- types ----
    def type_(self, d=0):
        opts = [
            ("type.prim", 6, lambda: self.r.choice(PRIMS)),
            ("type.named", 3, lambda: self.tname()),
        ]
        if d < 2:
            opts += [
                ("type.list", 2, lambda: "List[" + self.type_(d + 1) + "]"),
                ("type.dict", 1, lambda: "Dict[" + self.r.choice(["str", "int"]) + ", " + self.type_(d + 1) + "]"),
                ("type.set", 0.5, lambda: "Set[" + self.r.choice(["str", "int"]) + "]"),
                ("type.option", 1.5, lambda: "Option[" + self.type_(d + 1) + "]"),
                ("type.result", 1, lambda: "Result[" + self.type_(d + 1) + ", " + self.r.choice(["str", self.tname()]) + "]"),
                ("type.tuple_paren", 0.7, lambda: "(" + self.type_(d + 1) + ", " + self.type_(d + 1) + ")"),
                ("type.tuple_generic", 0.4, lambda: "Tuple[" + self.type_(d + 1) + ", " + self.type_(d + 1) + "]"),
                ("type.fn", 0.5, lambda: "(" + ", ".join(self.type_(d + 1) for _ in range(self.r.randint(0, 2))) + ") -> " + self.type_(d + 1)),
                ("type.unit_paren", 0.3, lambda: "()"),
                ("type.none", 0.5, lambda: "None"),
                ("type.generic_user", 0.4, lambda: self.tname() + "[" + self.type_(d + 1) + "]"),
            ]
        return self.pick(opts)

    def ret_type(self):
        return self.pick([("ret.none", 3, lambda: "None"), ("ret.type", 5, lambda: self.type_()), ("ret.self", 0.3, lambda: "Self")])

    # ---- expressions ----
    def atom(self):
        return self.pick([
            ("expr.ident", 8, self.name),
            ("expr.int", 5, self.int_lit),
            ("expr.float", 2, self.float_lit),
            ("expr.str", 3, self.str_lit),
            ("expr.bool", 1.5, lambda: self.pick([("lit.bool.lower", 3, lambda: self.r.choice(["true", "false"])),
                                                  ("lit.bool.title", 1, lambda: self.r.choice(["True", "False"]))])),
            ("expr.none", 0.7, lambda: "None"),
            ("expr.bytes", 0.4, self.bytes_lit),
            ("expr.fstring_atom", 1, self.fstring),
        ])

    def expr(self, d=0):
        if d >= 3:
            return self.atom()
        e = lambda: self.expr(d + 1)
        arith = ["+", "-", "*", "/", "//", "%"]
        opts = [
            ("expr.atom", 7, self.atom),
            ("expr.binary.arith", 4, lambda: e() + " " + self.r.choice(arith) + " " + e()),
            ("expr.binary.pow", 0.7, lambda: self.atom() + " ** " + self.atom()),
            ("expr.binary.cmp", 2, lambda: e() + " " + self.r.choice(["==", "!=", "<", ">", "<=", ">="]) + " " + e()),
            ("expr.binary.logic", 1.5, lambda: e() + " " + self.r.choice(["and", "or"]) + " " + e()),
            ("expr.binary.in", 0.7, lambda: self.atom() + " in " + self.atom()),
            ("expr.binary.not_in", 0.5, lambda: self.atom() + " not in " + self.atom()),
            ("expr.binary.is", 0.3, lambda: self.atom() + " is " + self.r.choice(["None", self.name()])),
            ("expr.unary.neg", 1, lambda: "-" + self.atom()),
            ("expr.unary.not", 1, lambda: "(not " + e() + ")"),
            ("expr.paren", 2, lambda: "(" + e() + ")"),
            ("expr.call", 3, lambda: self.r.choice(FUNCS) + "(" + self.call_args(d) + ")"),
            ("expr.constructor", 1.5, lambda: self.tname() + "(" + self.call_args(d, named=True) + ")"),
            ("expr.method", 2.5, lambda: self.postfix_base(d) + "." + self.name() + "(" + self.call_args(d) + ")"),
            ("expr.field", 2, lambda: self.postfix_base(d) + "." + self.name()),
            ("expr.tuple_field", 0.5, lambda: self.name() + "." + str(self.r.randint(0, 2))),
            ("expr.index", 1.5, lambda: self.postfix_base(d) + "[" + e() + "]"),
            ("expr.slice", 1.2, lambda: self.postfix_base(d) + "[" + self.slice_body(d) + "]"),
            ("expr.list", 1.5, lambda: "[" + ", ".join(e() for _ in range(self.r.randint(0, 3))) + "]"),
            ("expr.dict", 0.8, lambda: "{" + ", ".join(self.atom() + ": " + e() for _ in range(self.r.randint(0, 3))) + "}"),
            ("expr.set", 0.4, lambda: "{" + ", ".join(self.atom() for _ in range(self.r.randint(1, 3))) + "}"),
            ("expr.tuple", 0.8, lambda: "(" + e() + ", " + ", ".join(e() for _ in range(self.r.randint(0, 2))) + ")"),
            ("expr.tuple_empty", 0.1, lambda: "()"),
            ("expr.try", 0.7, lambda: self.r.choice(FUNCS) + "(" + self.call_args(d) + ")?"),
            ("expr.listcomp", 0.7, lambda: "[" + e() + " for " + self.name() + " in " + e() + (" if " + e() if self.on("expr.listcomp.filter", 0.4) else "") + "]"),
            ("expr.dictcomp", 0.3, lambda: "{" + self.atom() + ": " + e() + " for " + self.name() + " in " + e() + (" if " + e() if self.on("expr.dictcomp.filter", 0.4) else "") + "}"),
            ("expr.closure", 0.6, lambda: "(" + ", ".join(self.name() for _ in range(self.r.randint(0, 2))) + ") => " + e()),
            ("expr.range", 0.4, lambda: self.atom() + self.r.choice(["..", "..="]) + self.atom()),
            ("expr.await", 0.3, lambda: "await " + self.r.choice(FUNCS) + "()"),
            ("expr.self", 0.5, lambda: "self." + self.name()),
        ]
        return self.pick(opts)

    def postfix_base(self, d):
        return self.pick([
            ("postfix.ident", 6, self.name),
            ("postfix.call", 1, lambda: self.r.choice(FUNCS) + "()"),
            ("postfix.paren", 0.7, lambda: "(" + self.expr(d + 1) + ")"),
            ("postfix.str", 0.5, self.str_lit),
            ("postfix.self", 0.5, lambda: "self"),
            ("postfix.chain", 1, lambda: self.name() + "." + self.name()),
            ("postfix.index", 0.5, lambda: self.name() + "[" + self.int_lit() + "]"),
        ])

    def slice_body(self, d):
        a = self.expr(d + 1) if self.on("slice.start", 0.5) else ""
        b = self.expr(d + 1) if self.on("slice.end", 0.5) else ""
        if self.on("slice.step", 0.35):
            c = self.pick([("slice.step.value", 3, lambda: self.r.choice(["2", "-1", "3", self.name()])), ("slice.step.empty", 0.5, lambda: "")])
            if b == "" and "slice.coloncolon" in self.avoid:
                b = self.atom()
            if b == "":
                self.feat.add("slice.coloncolon")
            return a + ":" + b + ":" + c
        return a + ":" + b

    def call_args(self, d, named=False):
        n = self.r.randint(0, 3)
        parts = []
        for _ in range(n):
            if named or self.on("call.named_arg", 0.2):
                parts.append(self.name() + "=" + self.expr(d + 1))
            else:
                parts.append(self.expr(d + 1))
        if named:
            self.feat.add("call.named_arg")
        return ", ".join(parts)

    # ---- patterns ----
    def pattern(self, d=0):
        opts = [
            ("pat.wildcard", 2, lambda: "_"),
            ("pat.binding", 3, self.name),
            ("pat.lit.int", 2, self.int_lit),
            ("pat.lit.str", 1, lambda: '"' + self.r.choice(["a", "ok", "x y"]) + '"'),
            ("pat.lit.bool", 0.7, lambda: self.r.choice(["true", "false"])),
            ("pat.lit.none_kw", 0.5, lambda: "None"),
        ]
        if d < 2:
            opts += [
                ("pat.ctor", 3, lambda: self.r.choice(["Some", "Ok", "Err", "Circle", "Leaf"]) + "(" + ", ".join(self.pattern(d + 1) for _ in range(self.r.randint(1, 2))) + ")"),
                ("pat.ctor_noargs", 0.5, lambda: self.r.choice(["Red", "Empty"]) + "()"),
                ("pat.qualified", 1.5, lambda: self.tname() + "." + self.r.choice(["Red", "Circle", "None"]) + (("(" + self.pattern(d + 1) + ")") if self.on("pat.qualified.args", 0.5) else "")),
                ("pat.tuple", 1, lambda: "(" + ", ".join(self.pattern(d + 1) for _ in range(self.r.randint(2, 3))) + ")"),
            ]
        return self.pick(opts)

    # ---- statements ----
    def block(self, d, n=None, in_loop=False):
        n = self.r.randint(1, 3) if n is None else n
        out = []
        for _ in range(n):
            out += self.stmt(d, in_loop)
        return out

    def match_lines(self, head, d, in_loop):
        lines = [head + "match " + self.expr(2) + ":"]
        for _ in range(self.r.randint(1, 3)):
            def arrow_expr():
                return ["    " + self.pattern() + " => " + self.expr(2)]

            def arrow_block():
                return ["    " + self.pattern() + " =>"] + self.ind(self.block(d + 1, in_loop=in_loop), 2)

            def arrow_return():
                return ["    " + self.pattern() + " => return " + self.expr(2)]

            def arrow_pass():
                return ["    " + self.pattern() + " => pass"]

            def case_block():
                g = (" if " + self.expr(2)) if self.on("match.guard", 0.4) else ""
                return ["    case " + self.pattern() + g + ":"] + self.ind(self.block(d + 1, in_loop=in_loop), 2)

            def case_inline():
                g = (" if " + self.expr(2)) if self.on("match.guard", 0.3) else ""
                return ["    case " + self.pattern() + g + ": " + self.r.choice(["pass", "return " + self.atom(), self.expr(2)])]

            lines += self.pick([("match.arrow_expr", 4, arrow_expr), ("match.arrow_block", 2, arrow_block),
                                ("match.arrow_return", 1, arrow_return), ("match.arrow_pass", 0.5, arrow_pass),
                                ("match.case_block", 2, case_block), ("match.case_inline", 1, case_inline)])
        return lines

    def stmt(self, d, in_loop=False):
        e = lambda: self.expr(1)
        simple = [
            ("stmt.assign.inferred", 4, lambda: [self.name() + " = " + e()]),
            ("stmt.assign.typed", 2, lambda: [self.name() + ": " + self.type_() + " = " + e()]),
            ("stmt.assign.let", 1.5, lambda: ["let " + self.name() + (": " + self.type_() if self.on("stmt.assign.let.typed", 0.4) else "") + " = " + e()]),
            ("stmt.assign.mut", 2, lambda: ["mut " + self.name() + (": " + self.type_() if self.on("stmt.assign.mut.typed", 0.4) else "") + " = " + e()]),
            ("stmt.compound", 2, lambda: [self.name() + " " + self.r.choice(["+=", "-=", "*=", "/=", "//=", "%="]) + " " + e()]),
            ("stmt.compound.field", 0.7, lambda: [self.r.choice(["self", self.name()]) + "." + self.name() + " " + self.r.choice(["+=", "-=", "*=", "/=", "//=", "%="]) + " " + e()]),
            ("stmt.compound.index", 0.5, lambda: [self.name() + "[" + self.atom() + "] " + self.r.choice(["+=", "-=", "*="]) + " " + e()]),
            ("stmt.field_assign", 1.5, lambda: [self.r.choice(["self", self.name()]) + "." + self.name() + " = " + e()]),
            ("stmt.index_assign", 1, lambda: [self.name() + "[" + self.atom() + "] = " + e()]),
            ("stmt.tuple_unpack", 0.7, lambda: [self.r.choice(["", "let ", "mut "]) + self.name() + ", " + self.name() + " = " + e()]),
            ("stmt.tuple_assign", 0.3, lambda: [self.name() + "." + self.name() + ", " + self.name() + "[0] = " + e()]),
            ("stmt.chained", 0.4, lambda: [self.r.choice(["", "mut "]) + self.name() + " = " + self.name() + " = " + e()]),
            ("stmt.return.value", 1.5, lambda: ["return " + e()]),
            ("stmt.return.bare", 0.5, lambda: ["return"]),
            ("stmt.expr", 3, lambda: [self.r.choice(["println", "print"] + FUNCS) + "(" + self.call_args(1) + ")"]),
            ("stmt.expr.method", 1.5, lambda: [self.name() + "." + self.name() + "(" + self.call_args(1) + ")"]),
            ("stmt.pass", 0.5, lambda: ["pass"]),
            ("stmt.ellipsis", 0.2, lambda: ["..."]),
            ("stmt.docstring", 0.3, lambda: self.docstring()),
            ("stmt.yield", 0.3, lambda: [self.r.choice(["yield " + self.atom(), "yield"])]),
        ]
        if in_loop:
            simple += [("stmt.break", 1, lambda: ["break"]), ("stmt.continue", 1, lambda: ["continue"])]
        if d >= 3:
            return self.pick(simple)

        def if_stmt():
            lines = ["if " + self.expr(1) + ":"] + self.ind(self.block(d + 1, in_loop=in_loop))
            for _ in range(self.r.randint(0, 2) if self.on("stmt.if.elif", 0.4) else 0):
                lines += ["elif " + self.expr(1) + ":"] + self.ind(self.block(d + 1, in_loop=in_loop))
            if self.on("stmt.if.else", 0.5):
                lines += ["else:"] + self.ind(self.block(d + 1, in_loop=in_loop))
            return lines

        def while_stmt():
            return ["while " + self.expr(1) + ":"] + self.ind(self.block(d + 1, in_loop=True))

        def for_stmt():
            it = self.pick([("for.iter.expr", 3, lambda: self.expr(2)), ("for.iter.range_call", 2, lambda: "range(" + ", ".join(self.atom() for _ in range(self.r.randint(1, 3))) + ")"),
                            ("for.iter.range_op", 0.6, lambda: self.atom() + self.r.choice(["..", "..="]) + self.atom())])
            return ["for " + self.name() + " in " + it + ":"] + self.ind(self.block(d + 1, in_loop=True))

        def match_stmt():
            return self.match_lines("", d, in_loop)

        def match_assign():
            return self.match_lines(self.name() + " = ", d, in_loop)

        def match_return():
            return self.match_lines("return ", d, in_loop)

        def if_expr_assign():
            lines = [self.name() + " = if " + self.expr(2) + ":"] + self.ind(self.block(d + 1, n=1, in_loop=in_loop))
            if self.on("expr.if.else", 0.7):
                lines += ["else:"] + self.ind(self.block(d + 1, n=1, in_loop=in_loop))
            return lines

        compound = [
            ("stmt.if", 3, if_stmt), ("stmt.while", 1.5, while_stmt), ("stmt.for", 2, for_stmt),
            ("stmt.match", 2, match_stmt), ("expr.match.assign", 0.6, match_assign), ("expr.match.return", 0.4, match_return),
            ("expr.if.assign", 0.4, if_expr_assign),
        ]
        return self.pick(simple + compound)

    # ---- declarations ----
    def decorators(self, kinds):
        out = []
        if not self.on("decl.decorator", 0.3):
            return out
        for _ in range(self.r.randint(1, 2)):
            def derive():
                return "@derive(" + ", ".join(self.r.sample(["Debug", "Clone", "Eq", "Hash", "Ord", "Serialize", "Deserialize", "Default"], self.r.randint(1, 3))) + ")"

            def bare():
                return "@" + self.r.choice(["fixture", "skip", "slow", "staticmethod", "classmethod", "autouse"])

            def pos_args():
                return "@" + self.r.choice(["route", "skip", "xfail"]) + "(" + ", ".join(self.r.choice([self.str_lit(), self.int_lit()]) for _ in range(self.r.randint(1, 2))) + ")"

            def named_expr():
                return "@" + self.r.choice(["route", "fixture", "parametrize"]) + "(" + self.r.choice(['"/p", ', ""]) + self.name() + "=" + self.r.choice([self.str_lit(), self.int_lit(), "true", "[" + self.str_lit() + "]"]) + ")"

            def named_type():
                return "@" + self.r.choice(["requires", "field"]) + "(" + ", ".join(self.name() + ": " + self.type_() for _ in range(self.r.randint(1, 2))) + ")"

            out.append(self.pick([("decorator.derive", 3, derive), ("decorator.bare", 2, bare), ("decorator.positional", 1, pos_args),
                                  ("decorator.named_expr", 1, named_expr), ("decorator.named_type", 1, named_type)]))
        return out

    def type_params(self, key):
        if self.on(key, 0.15):
            return "[" + ", ".join(self.r.sample(["T", "U", "K"], self.r.randint(1, 2))) + "]"
        return ""

    def params(self):
        ps = []
        for _ in range(self.r.randint(0, 3)):
            p = ("mut " if self.on("param.mut", 0.15) else "") + self.name() + ": " + self.type_()
            if self.on("param.default", 0.2):
                p += " = " + self.atom()
            ps.append(p)
        return ps

    def func(self, method=False, abstract_ok=False):
        lines = self.decorators("fn")
        head = ""
        if not method and self.on("decl.fn.pub", 0.25):
            head += "pub "
        if self.on("decl.fn.async", 0.12):
            head += "async "
        head += self.pick([("kw.def", 9, lambda: "def "), ("kw.fn_alias", 1, lambda: "fn ")])
        head += self.r.choice(FUNCS + ["main", "new", "describe", "validate", "from_underlying"])
        if not method:
            head += self.type_params("decl.fn.type_params")
        ps = self.params()
        if method:
            recv = self.pick([("method.self", 5, lambda: ["self"]), ("method.mut_self", 2, lambda: ["mut self"]), ("method.static", 1.5, lambda: [])])
            ps = recv + ps
        head += "(" + ", ".join(ps) + ") -> " + self.ret_type()
        if method and abstract_ok and self.on("method.abstract", 0.4):
            lines.append(head + self.pick([("method.abstract.ellipsis", 2, lambda: ": ..."), ("method.abstract.newline", 1, lambda: "")]))
            return lines
        lines.append(head + ":")
        body = []
        if self.on("decl.fn.docstring", 0.15):
            body += self.docstring()
        body += self.block(1)
        return lines + self.ind(body)

    def field(self):
        f = ("pub " if self.on("field.pub", 0.15) else "") + self.name() + ": " + self.type_()
        if self.on("field.default", 0.25):
            f += " = " + self.r.choice([self.atom(), "[]", "{}"])
        return f

    def body_fields_methods(self, abstract_ok=False):
        out = []
        nf = self.r.randint(0, 4)
        nm = self.r.randint(0, 2)
        if nf + nm == 0:
            nf = 1
        for _ in range(nf):
            out.append(self.field())
        for _ in range(nm):
            if out:
                out.append("")
            out += self.func(method=True, abstract_ok=abstract_ok)
        return out

    def model(self):
        lines = self.decorators("model")
        head = ("pub " if self.on("decl.model.pub", 0.25) else "") + "model " + self.tname() + self.type_params("decl.model.type_params")
        if self.on("decl.model.with", 0.25):
            head += " with " + ", ".join(self.r.sample(TRAITS, self.r.randint(1, 2)))
        return lines + [head + ":"] + self.ind(self.body_fields_methods())

    def klass(self):
        lines = self.decorators("class")
        head = ("pub " if self.on("decl.class.pub", 0.25) else "") + "class " + self.tname() + self.type_params("decl.class.type_params")
        if self.on("decl.class.extends", 0.25):
            head += " extends " + self.tname()
        if self.on("decl.class.with", 0.3):
            head += " with " + ", ".join(self.r.sample(TRAITS, self.r.randint(1, 2)))
        return lines + [head + ":"] + self.ind(self.body_fields_methods())

    def trait(self):
        lines = self.decorators("trait")
        head = ("pub " if self.on("decl.trait.pub", 0.25) else "") + "trait " + self.r.choice(TRAITS) + self.type_params("decl.trait.type_params")
        if self.on("decl.trait.empty_pass", 0.15):
            return lines + [head + ":", "    pass"]
        body = []
        for k in range(self.r.randint(1, 3)):
            if body:
                body.append("")
            body += self.func(method=True, abstract_ok=True)
        return lines + [head + ":"] + self.ind(body)

    def newtype(self):
        pub = "pub " if self.on("decl.newtype.pub", 0.2) else ""
        head = self.pick([
            ("newtype.type_eq_newtype", 3, lambda: pub + "type " + self.tname() + " = newtype " + self.type_()),
            ("newtype.kw_first", 1, lambda: pub + "newtype " + self.tname() + " = " + self.type_()),
        ])
        if self.on("decl.newtype.methods", 0.4):
            body = []
            for _ in range(self.r.randint(1, 2)):
                if body:
                    body.append("")
                body += self.func(method=True)
            return [head + ":"] + self.ind(body)
        return [head]

    def enum(self):
        head = ("pub " if self.on("decl.enum.pub", 0.25) else "") + "enum " + self.tname() + self.type_params("decl.enum.type_params") + ":"
        vs = []
        for v in self.r.sample(["Red", "Green", "Circle", "Leaf", "Empty", "Pair", "Node2", "None"], self.r.randint(1, 4)):
            if v == "None" and not self.on("enum.variant_none", 1.0):
                v = "Nil"
            if self.on("enum.variant.payload", 0.4):
                v += "(" + ", ".join(self.type_(1) for _ in range(self.r.randint(1, 2))) + ")"
            vs.append(v)
        return [head] + self.ind(vs)

    def const(self):
        pub = "pub " if self.on("decl.const.pub", 0.3) else ""
        ty = (": " + self.type_()) if self.on("decl.const.typed", 0.5) else ""
        return [pub + "const " + self.r.choice(["MAX", "NAME", "LIMIT_2", "PI", "TAGS", "K"]) + ty + " = " + self.expr(1)]

    def import_(self):
        seg = lambda: self.r.choice(["models", "utils", "db", "core_lib", "helpers", "a", "b2"])

        def items():
            its = []
            for _ in range(self.r.randint(1, 3)):
                its.append(self.r.choice([self.tname(), self.name()]) + ((" as " + self.name()) if self.on("import.item_alias", 0.25) else ""))
            return ", ".join(its)

        def path():
            sep = self.pick([("import.sep.coloncolon", 1, lambda: "::"), ("import.sep.dot", 1, lambda: ".")])
            return sep.join(seg() for _ in range(self.r.randint(1, 3)))

        def prefix():
            return self.pick([
                ("import.prefix.none", 5, lambda: ""),
                ("import.prefix.dotdot", 1, lambda: ".."),
                ("import.prefix.super", 1, lambda: "super" + self.r.choice(["::", "."])),
                ("import.prefix.super2", 0.4, lambda: "super::super::"),
                ("import.prefix.crate", 1, lambda: "crate" + self.r.choice(["::", "."])),
            ])

        return [self.pick([
            ("import.module", 3, lambda: "import " + prefix() + path() + ((" as " + self.name()) if self.on("import.module_alias", 0.3) else "")),
            ("import.from", 3, lambda: "from " + prefix() + path() + " import " + items()),
            ("import.rust_crate", 1.5, lambda: "import rust::" + self.r.choice(["serde_json", "std::collections::HashMap", "rand", "std::fs"]) + ((" as " + self.name()) if self.on("import.rust_alias", 0.3) else "")),
            ("import.rust_from", 1.5, lambda: "from rust::" + self.r.choice(["std::collections", "serde_json", "std::time", "tokio"]) + " import " + items()),
            ("import.python", 0.4, lambda: "import python " + self.r.choice(['"numpy"', '"os.path"']) + ((" as " + self.name()) if self.on("import.python_alias", 0.5) else "")),
        ])]

    def file(self, ndecl=None):
        ndecl = self.r.randint(1, 6) if ndecl is None else ndecl
        chunks = []
        if self.on("decl.module_docstring", 0.2):
            chunks.append(self.docstring())
        for _ in range(self.r.randint(0, 2) if self.on("decl.import", 0.35) else 0):
            chunks.append(self.import_())
        for _ in range(ndecl):
            chunks.append(self.pick([
                ("decl.function", 6, self.func), ("decl.model", 2, self.model), ("decl.class", 2, self.klass),
                ("decl.trait", 1, self.trait), ("decl.enum", 1.5, self.enum), ("decl.newtype", 1, self.newtype),
                ("decl.const", 1.5, self.const),
            ]))
        sep = "\n" * self.r.choice([1, 2, 2, 3])
        text = ""
        for c in chunks:
            text += "\n".join(c) + "\n" + sep[1:] + ("\n" if len(sep) > 1 else "")
        return text


def gen_file(rng, avoid=(), ndecl=None):
    g = G(rng, avoid)
    text = g.file(ndecl)
    return text, g.feat


if __name__ == "__main__":
    import sys
    r = random.Random(int(sys.argv[1]) if len(sys.argv) > 1 else 1)
    t, f = gen_file(r)
    print(t)
    print("# features:", sorted(f))
