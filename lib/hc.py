"""Client for the verif-harness JSONL server: synchronous request/reply with crash and stall attribution."""
import json
import multiprocessing as mp
import os
import select
import subprocess

from common import HARNESS, base_env


class Harness:
    def __init__(self, timeout=30.0, env=None, cwd=None):
        self.timeout = timeout
        self.env = env
        self.cwd = cwd
        self.p = None
        self.buf = b""

    def start(self):
        e = base_env()
        if self.env:
            e.update(self.env)
        self.p = subprocess.Popen([HARNESS, "serve"], stdin=subprocess.PIPE, stdout=subprocess.PIPE, stderr=subprocess.DEVNULL,
                                  env=e, cwd=self.cwd)
        self.buf = b""

    def stop(self):
        if self.p is not None:
            try:
                self.p.stdin.close()
            except Exception:
                pass
            try:
                self.p.wait(timeout=2)
            except Exception:
                self.p.kill()
                self.p.wait()
            self.p = None

    def _kill(self):
        if self.p is not None:
            self.p.kill()
            self.p.wait()
            self.p = None

    def call(self, req):
        """Returns the reply dict, or {"crash": code} / {"timeout": True} when the process died / stalled on it."""
        if self.p is None or self.p.poll() is not None:
            self.start()
        data = (json.dumps(req) + "\n").encode("utf-8")
        try:
            self.p.stdin.write(data)
            self.p.stdin.flush()
        except (BrokenPipeError, OSError):
            code = self.p.poll()
            self._kill()
            return {"crash": code}
        fd = self.p.stdout.fileno()
        while b"\n" not in self.buf:
            r, _, _ = select.select([fd], [], [], self.timeout)
            if not r:
                self._kill()
                return {"timeout": True}
            chunk = os.read(fd, 1 << 16)
            if not chunk:
                code = self.p.wait()
                self.p = None
                return {"crash": code}
            self.buf += chunk
        line, self.buf = self.buf.split(b"\n", 1)
        return json.loads(line)


def _shard_worker(args):
    reqs, timeout, env, cwd = args
    h = Harness(timeout=timeout, env=env, cwd=cwd)
    out = []
    try:
        for r in reqs:
            out.append(h.call(r))
    finally:
        h.stop()
    return out


def run_requests(reqs, nproc=16, shard=400, timeout=30.0, env=None, cwd=None):
    """Run requests across harness processes; replies come back in request order."""
    shards = [(reqs[i:i + shard], timeout, env, cwd) for i in range(0, len(reqs), shard)]
    if not shards:
        return []
    if len(shards) == 1 or nproc == 1:
        res = [_shard_worker(s) for s in shards]
    else:
        with mp.Pool(min(nproc, len(shards))) as pool:
            res = pool.map(_shard_worker, shards)
    out = []
    for r in res:
        out.extend(r)
    return out
