"""incanref: an independent reference interpreter + pretty-printer for the sub-language the program generators emit.

It implements the *documented* semantics only (DESIGN.md Appendix A).  It never calls into /repo.
IR nodes are plain tuples; `pp_*` renders Incan source, `Interp` evaluates.
"""
import math

I64_MIN, I64_MAX = -(2 ** 63), 2 ** 63 - 1


class IncanPanic(Exception):
    def __init__(self, kind, msg):
        Exception.__init__(self, "%s: %s" % (kind, msg))
        self.kind, self.msg = kind, msg

    def text(self):
        return "%s: %s" % (self.kind, self.msg)


class OutOfDomain(Exception):
    """The reference left the domain it models (overflow, NaN/Inf, step budget): the case is inconclusive."""


class _Break(Exception):
    pass


class _Continue(Exception):
    pass


class _Return(Exception):
    def __init__(self, v):
        self.v = v


def zde():
    return IncanPanic("ZeroDivisionError", "float division by zero")


def ck_int(v):
    if not (I64_MIN <= v <= I64_MAX):
        raise OutOfDomain("integer overflow")
    return v


def ck_float(v):
    if math.isnan(v) or math.isinf(v):
        raise OutOfDomain("nan/inf")
    if v != 0 and (abs(v) > 1e15 or abs(v) < 1e-9):
        raise OutOfDomain("float magnitude outside the compared range")
    return v


# --------------------------------------------------------------------------------------------------
# pretty printer
# --------------------------------------------------------------------------------------------------
def q(s):
    out = '"'
    for ch in s:
        if ch == '"':
            out += '\\"'
        elif ch == "\\":
            out += "\\\\"
        elif ch == "\n":
            out += "\\n"
        elif ch == "\t":
            out += "\\t"
        else:
            out += ch
    return out + '"'


def fq(s):
    return q(s)[1:-1].replace("{", "{{").replace("}", "}}")


def pp_float(x):
    r = repr(float(x))
    if "e" in r or "inf" in r or "nan" in r:
        raise OutOfDomain("float literal needs exponent")
    return r


def pp_type(t):
    if isinstance(t, str):
        return t
    k = t[0]
    if k == "list":
        return "List[%s]" % pp_type(t[1])
    if k == "dict":
        return "Dict[%s, %s]" % (pp_type(t[1]), pp_type(t[2]))
    if k == "opt":
        return "Option[%s]" % pp_type(t[1])
    if k == "res":
        return "Result[%s, %s]" % (pp_type(t[1]), pp_type(t[2]))
    if k in ("model", "enum", "newtype"):
        return t[1]
    if k == "tuple":
        return "(" + ", ".join(pp_type(x) for x in t[1:]) + ")"
    raise ValueError(t)


PREC = {"or": 1, "and": 2, "not": 3, "cmp": 4, "in": 4, "+": 6, "-": 6, "concat": 6, "*": 7, "/": 7, "//": 7, "%": 7, "neg": 8, "pow": 9}


def prec(e):
    k = e[0]
    if k == "bin":
        return PREC[e[1]]
    return PREC.get(k, 10)


class Unprintable(ValueError):
    """The tree cannot be written without parentheses that change grouping (generator must not produce it)."""


def _need(child, minimum, what):
    if prec(child) < minimum:
        raise Unprintable("%s operand %r needs parentheses" % (what, child[0]))


def pp(e):
    k = e[0]
    if k == "bin":
        _need(e[2], PREC[e[1]], e[1])
        _need(e[3], PREC[e[1]] + 1, e[1])
    elif k == "concat":
        _need(e[1], 6, "+")
        _need(e[2], 7, "+")
    elif k in ("cmp", "in"):
        _need(e[2], 5, k)
        _need(e[3], 5, k)
    elif k == "and":
        _need(e[1], 2, k)
        _need(e[2], 3, k)
    elif k == "or":
        _need(e[1], 1, k)
        _need(e[2], 2, k)
    elif k == "not":
        _need(e[1], 5, k)
    elif k == "neg":
        _need(e[1], 10, k)
    elif k == "pow":
        _need(e[1], 10, k)
        if e[2][0] not in ("int", "var", "float", "paren") and not (e[2][0] == "neg" and e[2][1][0] in ("int", "paren")):
            raise Unprintable("pow exponent")
    elif k in ("idx", "slice", "field", "mcall", "smeth", "tfield", "try"):
        base = e[2] if k in ("idx", "slice", "smeth") else e[1]
        _need(base, 10, k)
    if k == "int":
        return str(e[1])
    if k == "float":
        return pp_float(e[1])
    if k == "bool":
        return "true" if e[1] else "false"
    if k == "str":
        return q(e[1])
    if k == "var":
        return e[1]
    if k == "bin":
        return "%s %s %s" % (pp(e[2]), e[1], pp(e[3]))
    if k == "pow":
        return "%s ** %s" % (pp(e[1]), pp(e[2]))
    if k == "cmp":
        return "%s %s %s" % (pp(e[2]), e[1], pp(e[3]))
    if k == "and":
        return "%s and %s" % (pp(e[1]), pp(e[2]))
    if k == "or":
        return "%s or %s" % (pp(e[1]), pp(e[2]))
    if k == "not":
        return "not %s" % pp(e[1])
    if k == "neg":
        return "-%s" % pp(e[1])
    if k == "paren":
        return "(%s)" % pp(e[1])
    if k == "call":
        return "%s(%s)" % (e[1], ", ".join(pp(a) for a in e[2]))
    if k == "kwcall":
        return "%s(%s)" % (e[1], ", ".join(("%s=%s" % (n, pp(a))) if n else pp(a) for n, a in e[2]))
    if k == "len":
        return "len(%s)" % pp(e[1])
    if k == "builtin":
        return "%s(%s)" % (e[1], ", ".join(pp(a) for a in e[2]))
    if k == "smeth":
        return "%s.%s(%s)" % (pp(e[2]), e[1], ", ".join(pp(a) for a in e[3]))
    if k == "idx":
        return "%s[%s]" % (pp(e[2]), pp(e[3]))
    if k == "slice":
        a, b, c = e[3], e[4], e[5]
        s = (pp(a) if a is not None else "") + ":" + (pp(b) if b is not None else "")
        if c is not None:
            s += ":" + pp(c)
        return "%s[%s]" % (pp(e[2]), s)
    if k == "concat":
        return "%s + %s" % (pp(e[1]), pp(e[2]))
    if k == "in":
        return "%s %s %s" % (pp(e[2]), "not in" if e[1] else "in", pp(e[3]))
    if k == "set":
        return "{" + ", ".join(pp(x) for x in e[1]) + "}"
    if k == "fstr":
        return 'f"' + "".join(fq(p) if isinstance(p, str) else "{" + pp(p) + "}" for p in e[1]) + '"'
    if k == "field":
        return "%s.%s" % (pp(e[1]), e[2])
    if k == "mcall":
        return "%s.%s(%s)" % (pp(e[1]), e[2], ", ".join(pp(a) for a in e[3]))
    if k == "ctor":
        return "%s(%s)" % (e[1], ", ".join("%s=%s" % (n, pp(v)) for n, v in e[2]))
    if k == "variant":
        return "%s.%s" % (e[1], e[2]) + ("(" + ", ".join(pp(a) for a in e[3]) + ")" if e[3] else "")
    if k == "some":
        return "Some(%s)" % pp(e[1])
    if k == "none":
        return "None"
    if k == "ok":
        return "Ok(%s)" % pp(e[1])
    if k == "err":
        return "Err(%s)" % pp(e[1])
    if k == "try":
        return "%s?" % pp(e[1])
    if k == "list":
        return "[" + ", ".join(pp(x) for x in e[1]) + "]"
    if k == "dict":
        return "{" + ", ".join("%s: %s" % (pp(a), pp(b)) for a, b in e[1]) + "}"
    if k == "tuple":
        return "(" + ", ".join(pp(x) for x in e[1]) + ("," if len(e[1]) == 1 else "") + ")"
    if k == "tfield":
        return "%s.%d" % (pp(e[1]), e[2])
    if k == "listcomp":
        s = "[%s for %s in %s" % (pp(e[1]), e[2], pp(e[3]))
        if e[4] is not None:
            s += " if %s" % pp(e[4])
        return s + "]"
    if k == "newtype":
        return "%s(%s)" % (e[1], pp(e[2]))
    if k == "raw":
        return e[1]
    raise ValueError("pp: %r" % (k,))


def pp_pat(p):
    k = p[0]
    if k == "wild":
        return "_"
    if k == "bind":
        return p[1]
    if k == "lit":
        return pp(p[1])
    if k == "ctor":  # ("ctor", qualname, [subpatterns])
        return p[1] + ("(" + ", ".join(pp_pat(x) for x in p[2]) + ")" if p[2] else "")
    if k == "tuple":
        return "(" + ", ".join(pp_pat(x) for x in p[1]) + ")"
    if k == "guard":  # ("guard", pattern, condition)
        return "%s if %s" % (pp_pat(p[1]), pp(p[2]))
    raise ValueError(p)


def pp_block(stmts, ind):
    out = []
    for s in stmts:
        out += pp_stmt(s, ind)
    if not out:
        out = [" " * ind + "pass"]
    return out


def pp_stmt(s, ind=4):
    I = " " * ind
    k = s[0]
    if k == "let":
        _, kind, name, ty, e = s
        head = {"inferred": "", "let": "let ", "mut": "mut "}[kind] + name
        if ty is not None:
            head += ": " + pp_type(ty)
        return [I + head + " = " + pp(e)]
    if k == "assign":
        return [I + "%s = %s" % (s[1], pp(s[2]))]
    if k == "aug":
        return [I + "%s %s= %s" % (pp(s[2]), s[1], pp(s[3]))]
    if k == "setidx":
        return [I + "%s[%s] = %s" % (pp(s[1]), pp(s[2]), pp(s[3]))]
    if k == "setfield":
        return [I + "%s.%s = %s" % (pp(s[1]), s[2], pp(s[3]))]
    if k == "print":
        return [I + "println(%s)" % pp(s[1])]
    if k == "printb":
        return [I + "if %s:" % pp(s[1]), I + "    println(\"T\")", I + "else:", I + "    println(\"F\")"]
    if k == "if":
        out = []
        for n, (c, body) in enumerate(s[1]):
            out.append(I + ("if " if n == 0 else "elif ") + pp(c) + ":")
            out += pp_block(body, ind + 4)
        if s[2] is not None:
            out.append(I + "else:")
            out += pp_block(s[2], ind + 4)
        return out
    if k == "while":
        return [I + "while %s:" % pp(s[1])] + pp_block(s[2], ind + 4)
    if k == "for":
        return [I + "for %s in %s:" % (s[1], pp(s[2]))] + pp_block(s[3], ind + 4)
    if k == "break":
        return [I + "break"]
    if k == "continue":
        return [I + "continue"]
    if k == "pass":
        return [I + "pass"]
    if k == "return":
        return [I + "return" + (" " + pp(s[1]) if s[1] is not None else "")]
    if k == "expr":
        return [I + pp(s[1])]
    if k == "match":
        out = [I + "match %s:" % pp(s[1])]
        style = s[3] if len(s) > 3 else "arrow"
        for pat, body in s[2]:
            if style == "case":
                out.append(I + "    case %s:" % pp_pat(pat))
            else:
                out.append(I + "    %s =>" % pp_pat(pat))
            out += pp_block(body, ind + 8)
        return out
    if k == "rawstmt":
        return [I + l for l in s[1]]
    raise ValueError("pp_stmt: %r" % (k,))


def pp_func(f):
    """f = {"name", "params": [(name, type, default|None)], "ret": type|"None", "body": [...], "recv": None|"self"|"mut self"}"""
    ps = []
    if f.get("recv"):
        ps.append(f["recv"])
    for p in f["params"]:
        s = ("mut " if len(p) > 3 and p[3] else "") + "%s: %s" % (p[0], pp_type(p[1]))
        if p[2] is not None:
            s += " = " + pp(p[2])
        ps.append(s)
    ret = f["ret"] if f["ret"] == "None" else pp_type(f["ret"])
    return ["def %s(%s) -> %s:" % (f["name"], ", ".join(ps), ret)] + pp_block(f["body"], 4)


def pp_decl(d):
    k = d["kind"]
    if k == "func":
        return pp_func(d)
    if k in ("model", "class"):
        out = []
        if d.get("derives"):
            out.append("@derive(%s)" % ", ".join(d["derives"]))
        out.append("%s %s:" % (k, d["name"]))
        for fname, fty, fdef in d["fields"]:
            out.append("    %s: %s" % (fname, pp_type(fty)) + (" = " + pp(fdef) if fdef is not None else ""))
        for m in d.get("methods", []):
            out.append("")
            out += ["    " + l if l else l for l in pp_func(m)]
        return out
    if k == "enum":
        out = ["enum %s:" % d["name"]]
        for vname, vtys in d["variants"]:
            out.append("    " + vname + ("(" + ", ".join(pp_type(t) for t in vtys) + ")" if vtys else ""))
        return out
    if k == "const":
        return ["const %s%s = %s" % (d["name"], (": " + pp_type(d["ty"])) if d.get("ty") else "", pp(d["value"]))]
    if k == "newtype":
        out = ["type %s = newtype %s" % (d["name"], pp_type(d["under"])) + (":" if d.get("methods") else "")]
        for n, m in enumerate(d.get("methods", [])):
            if n:
                out.append("")
            out += ["    " + l if l else l for l in pp_func(m)]
        return out
    if k == "raw":
        return list(d["lines"])
    raise ValueError(k)


def pp_program(decls):
    out = []
    for d in decls:
        out += pp_decl(d)
        out += ["", ""]
    return "\n".join(out).rstrip("\n") + "\n"


# --------------------------------------------------------------------------------------------------
# interpreter
# --------------------------------------------------------------------------------------------------
class Model:
    __slots__ = ("name", "f")

    def __init__(self, name, f):
        self.name, self.f = name, f


class Variant:
    __slots__ = ("enum", "name", "args")

    def __init__(self, enum, name, args):
        self.enum, self.name, self.args = enum, name, args


class Some:
    __slots__ = ("v",)

    def __init__(self, v):
        self.v = v


class Ok:
    __slots__ = ("v",)

    def __init__(self, v):
        self.v = v


class Err:
    __slots__ = ("v",)

    def __init__(self, v):
        self.v = v


class NT:
    __slots__ = ("name", "v")

    def __init__(self, name, v):
        self.name, self.v = name, v


def py_floordiv_i(a, b):
    if b == 0:
        raise zde()
    return ck_int(a // b)


def py_mod_i(a, b):
    if b == 0:
        raise zde()
    return a % b


def fdiv(a, b):
    if b == 0:
        raise zde()
    return ck_float(float(a) / float(b))


def ffloordiv(a, b):
    if b == 0:
        raise zde()
    qv = float(a) / float(b)
    ck_float(qv)
    return float(math.floor(qv))


def fmod_(a, b):
    if b == 0:
        raise zde()
    return ck_float(float(a) % float(b))


def norm_index(n, i):
    j = i + n if i < 0 else i
    if j < 0 or j >= n:
        return None
    return j


def deep_copy(v):
    if isinstance(v, list):
        return [deep_copy(x) for x in v]
    if isinstance(v, dict):
        return {k: deep_copy(x) for k, x in v.items()}
    if isinstance(v, Model):
        return Model(v.name, {k: deep_copy(x) for k, x in v.f.items()})
    return v


class Interp:
    def __init__(self, decls, step_budget=200000):
        self.funcs = {}
        self.models = {}
        self.enums = {}
        self.consts = {}
        self.newtypes = {}
        self.out = []
        self.steps = step_budget
        for d in decls:
            if d["kind"] == "func":
                self.funcs[d["name"]] = d
            elif d["kind"] in ("model", "class"):
                self.models[d["name"]] = d
            elif d["kind"] == "enum":
                self.enums[d["name"]] = d
            elif d["kind"] == "newtype":
                self.newtypes[d["name"]] = d
        for d in decls:
            if d["kind"] == "const":
                self.consts[d["name"]] = self.ev(d["value"], [{}])

    def tick(self):
        self.steps -= 1
        if self.steps < 0:
            raise OutOfDomain("step budget exhausted")

    # ---- environment: list of dict scopes ----
    def lookup(self, env, name):
        for sc in reversed(env):
            if name in sc:
                return sc[name]
        if name in self.consts:
            return self.consts[name]
        raise KeyError("reference interpreter: unbound %s" % name)

    def set(self, env, name, v):
        for sc in reversed(env):
            if name in sc:
                sc[name] = v
                return
        env[-1][name] = v

    # ---- expressions ----
    def ev(self, e, env):
        self.tick()
        k = e[0]
        if k in ("int", "float", "bool", "str"):
            return e[1]
        if k == "var":
            return self.lookup(env, e[1])
        if k == "paren":
            return self.ev(e[1], env)
        if k == "bin":
            return self.binop(e[1], self.ev(e[2], env), self.ev(e[3], env))
        if k == "pow":
            a, b = self.ev(e[1], env), self.ev(e[2], env)
            if e[3] == "int":
                return ck_int(a ** b)
            try:
                r = float(a) ** float(b)
            except ZeroDivisionError:
                raise OutOfDomain("0 ** negative")
            except OverflowError:
                raise OutOfDomain("pow overflow")
            if isinstance(r, complex):
                raise OutOfDomain("complex pow")
            return ck_float(r)
        if k == "cmp":
            a, b = self.ev(e[2], env), self.ev(e[3], env)
            return self.compare(e[1], a, b)
        if k == "and":
            return self.ev(e[1], env) and self.ev(e[2], env)
        if k == "or":
            return self.ev(e[1], env) or self.ev(e[2], env)
        if k == "not":
            return not self.ev(e[1], env)
        if k == "neg":
            v = self.ev(e[1], env)
            return ck_int(-v) if isinstance(v, int) else -v
        if k == "call":
            args = [self.ev(a, env) for a in e[2]]
            return self.call(e[1], args, {})
        if k == "kwcall":
            pos, kw = [], {}
            for n, a in e[2]:
                v = self.ev(a, env)
                if n:
                    kw[n] = v
                else:
                    pos.append(v)
            return self.call(e[1], pos, kw)
        if k == "len":
            return len(self.ev(e[1], env))
        if k == "builtin":
            return self.builtin(e[1], [self.ev(a, env) for a in e[2]])
        if k == "smeth":
            recv = self.ev(e[2], env)
            args = [self.ev(a, env) for a in e[3]]
            return self.smeth(e[1], recv, args)
        if k == "idx":
            base = self.ev(e[2], env)
            i = self.ev(e[3], env)
            return self.index(e[1], base, i)
        if k == "slice":
            base = self.ev(e[2], env)
            a = None if e[3] is None else self.ev(e[3], env)
            b = None if e[4] is None else self.ev(e[4], env)
            c = None if e[5] is None else self.ev(e[5], env)
            if c == 0:
                raise IncanPanic("ValueError", "slice step cannot be zero")
            r = base[a:b:c]
            return r if isinstance(base, str) else list(r)
        if k == "concat":
            return self.ev(e[1], env) + self.ev(e[2], env)
        if k == "set":
            return set(self.ev(x, env) for x in e[1])
        if k == "in":
            item = self.ev(e[2], env)
            cont = self.ev(e[3], env)
            r = item in cont
            return (not r) if e[1] else r
        if k == "fstr":
            out = ""
            for p in e[1]:
                if isinstance(p, str):
                    out += p
                else:
                    v = self.ev(p, env)
                    if isinstance(v, bool) or not isinstance(v, (int, str)):
                        raise OutOfDomain("f-string of a value whose rendering is unspecified")
                    out += str(v)
            return out
        if k == "field":
            o = self.ev(e[1], env)
            return o.f[e[2]]
        if k == "tfield":
            return self.ev(e[1], env)[e[2]]
        if k == "mcall":
            o = self.ev(e[1], env)
            args = [self.ev(a, env) for a in e[3]]
            return self.mcall(o, e[2], args, e, env)
        if k == "ctor":
            d = self.models[e[1]]
            written = [n for n, _ in e[2]]
            declared = [fname for fname, _, _ in d["fields"] if fname in written]
            if written != declared:
                # keyword arguments written in another order than the fields are declared: the order in which they are evaluated is
                # not documented, so a constructor with two or more arguments that print or fail is outside the reference's domain
                given, effectful, first_panic = {}, 0, None
                for n, v in e[2]:
                    mark = len(self.out)
                    try:
                        val = self.ev(v, env)
                        if first_panic is None:
                            given[n] = val
                    except IncanPanic as p:
                        effectful += 1
                        if first_panic is None:
                            first_panic = p
                            kept = len(self.out)
                        continue
                    if len(self.out) != mark:
                        effectful += 1
                if effectful >= 2:
                    raise OutOfDomain("evaluation order of re-ordered constructor arguments with effects")
                if first_panic is not None:
                    del self.out[kept:]
                    raise first_panic
            else:
                given = {n: self.ev(v, env) for n, v in e[2]}
            f = {}
            for fname, fty, fdef in d["fields"]:
                if fname in given:
                    f[fname] = given[fname]
                else:
                    f[fname] = self.ev(fdef, [{}])
            return Model(e[1], f)
        if k == "variant":
            return Variant(e[1], e[2], [self.ev(a, env) for a in e[3]])
        if k == "some":
            return Some(self.ev(e[1], env))
        if k == "none":
            return None
        if k == "ok":
            return Ok(self.ev(e[1], env))
        if k == "err":
            return Err(self.ev(e[1], env))
        if k == "try":
            v = self.ev(e[1], env)
            if isinstance(v, Err):
                raise _Return(v)
            return v.v
        if k == "list":
            return [self.ev(x, env) for x in e[1]]
        if k == "tuple":
            return tuple(self.ev(x, env) for x in e[1])
        if k == "dict":
            d = {}
            for a, b in e[1]:
                d[self.ev(a, env)] = self.ev(b, env)
            return d
        if k == "listcomp":
            out = []
            for x in list(self.iterate(self.ev(e[3], env))):
                env.append({e[2]: x})
                try:
                    if e[4] is None or self.ev(e[4], env):
                        out.append(self.ev(e[1], env))
                finally:
                    env.pop()
            return out
        if k == "newtype":
            return self.make_newtype(e[1], self.ev(e[2], env), e)
        raise ValueError("ev: %r" % (k,))

    def make_newtype(self, name, v, e):
        d = self.newtypes[name]
        hook = d.get("hook")
        if hook is not None and not (len(e) > 3 and e[3] == "raw"):
            r = self.call_func(hook, [v], {})
            if isinstance(r, Err):
                raise IncanPanic("ValueError", d.get("panic_text", "newtype validation failed"))
            return r.v
        return NT(name, v)

    def iterate(self, v):
        if isinstance(v, range):
            return v
        if isinstance(v, dict):
            raise OutOfDomain("dict iteration order")
        return v

    def binop(self, op, a, b):
        fl = isinstance(a, float) or isinstance(b, float)
        if op == "+":
            return ck_float(float(a) + float(b)) if fl else ck_int(a + b)
        if op == "-":
            return ck_float(float(a) - float(b)) if fl else ck_int(a - b)
        if op == "*":
            return ck_float(float(a) * float(b)) if fl else ck_int(a * b)
        if op == "/":
            return fdiv(a, b)
        if op == "//":
            return ffloordiv(a, b) if fl else py_floordiv_i(a, b)
        if op == "%":
            return fmod_(a, b) if fl else py_mod_i(a, b)
        raise ValueError(op)

    def compare(self, op, a, b):
        if isinstance(a, (int, float)) and isinstance(b, (int, float)) and not isinstance(a, bool):
            if isinstance(a, float) or isinstance(b, float):
                a, b = float(a), float(b)
        if op == "==":
            return self.equal(a, b)
        if op == "!=":
            return not self.equal(a, b)
        if op == "<":
            return a < b
        if op == "<=":
            return a <= b
        if op == ">":
            return a > b
        if op == ">=":
            return a >= b
        raise ValueError(op)

    def equal(self, a, b):
        if isinstance(a, Model) and isinstance(b, Model):
            return a.name == b.name and all(self.equal(a.f[k], b.f[k]) for k in a.f)
        if isinstance(a, Variant) and isinstance(b, Variant):
            return a.name == b.name and len(a.args) == len(b.args) and all(self.equal(x, y) for x, y in zip(a.args, b.args))
        if isinstance(a, Some) and isinstance(b, Some):
            return self.equal(a.v, b.v)
        if isinstance(a, Some) or isinstance(b, Some):
            return False
        return a == b

    def builtin(self, name, args):
        if name == "abs":
            return ck_int(abs(args[0])) if isinstance(args[0], int) else abs(args[0])
        if name == "min":
            return min(args) if len(args) > 1 else min(args[0])
        if name == "max":
            return max(args) if len(args) > 1 else max(args[0])
        if name == "sum":
            t = sum(args[0])
            return ck_int(t) if isinstance(t, int) else t
        if name == "sorted":
            return sorted(args[0])
        if name == "str":
            if isinstance(args[0], bool) or not isinstance(args[0], (int, str)):
                raise OutOfDomain("str() of a value whose rendering is unspecified")
            return str(args[0])
        if name == "int":
            v = args[0]
            if isinstance(v, str):
                s = v.strip()
                import re
                if not re.fullmatch(r"[+-]?[0-9]+", s) or s != v:
                    if re.fullmatch(r"[+-]?[0-9]+", s):
                        raise OutOfDomain("int() of padded text")
                    raise IncanPanic("ValueError", "cannot convert '%s' to int" % v)
                return ck_int(int(s))
            if isinstance(v, float):
                return ck_int(int(v))
            return v
        if name == "float":
            v = args[0]
            if isinstance(v, str):
                import re
                if not re.fullmatch(r"[+-]?[0-9]+(\.[0-9]+)?", v):
                    if re.fullmatch(r"\s*[+-]?([0-9.]+([eE][+-]?[0-9]+)?|inf|nan|infinity)\s*", v, re.I):
                        raise OutOfDomain("float() spelling outside the modelled subset")
                    raise IncanPanic("ValueError", "cannot convert '%s' to float" % v)
                return float(v)
            return float(v)
        if name == "range":
            if len(args) == 1:
                return range(args[0])
            if len(args) == 2:
                return range(args[0], args[1])
            if args[2] == 0:
                raise IncanPanic("ValueError", "range() arg 3 must not be zero")
            return range(args[0], args[1], args[2])
        raise ValueError("builtin %s" % name)

    def smeth(self, m, s, args):
        if m == "upper":
            return s.upper()
        if m == "lower":
            return s.lower()
        if m == "strip":
            return s.strip()
        if m == "replace":
            if args[0] == "":
                raise OutOfDomain("replace of empty pattern")
            return s.replace(args[0], args[1])
        if m == "contains":
            return args[0] in s
        if m == "startswith":
            return s.startswith(args[0])
        if m == "endswith":
            return s.endswith(args[0])
        if m == "split":
            if args[0] == "":
                raise OutOfDomain("split on empty separator")
            return s.split(args[0])
        if m == "join":
            return s.join(args[0])
        raise ValueError("smeth %s" % m)

    def index(self, kind, base, i):
        if kind == "str":
            j = norm_index(len(base), i)
            if j is None:
                raise IncanPanic("IndexError", "string index out of range")
            return base[j]
        if kind == "list":
            j = norm_index(len(base), i)
            if j is None:
                raise IncanPanic("IndexError", "index %d out of range for list of length %d" % (i, len(base)))
            return base[j]
        if kind == "dict":
            if i not in base:
                raise IncanPanic("KeyError", "'%s' not found in dict" % (i,))
            return base[i]
        raise ValueError(kind)

    def mcall(self, o, meth, args, e, env):
        if isinstance(o, list):
            if meth == "append":
                o.append(args[0])
                return None
            if meth == "pop":
                if not o:
                    raise OutOfDomain("pop from empty list")
                return o.pop()
            if meth == "contains":
                return args[0] in o
            if meth == "len":
                return len(o)
            raise ValueError("list method %s" % meth)
        if isinstance(o, dict):
            if meth == "get":
                return Some(o[args[0]]) if args[0] in o else None
            if meth == "contains_key":
                return args[0] in o
            if meth == "insert":
                o[args[0]] = args[1]
                return None
            if meth == "keys":
                raise OutOfDomain("dict order")
            raise ValueError("dict method %s" % meth)
        if isinstance(o, Model):
            d = self.models[o.name]
            for m in d.get("methods", []):
                if m["name"] == meth:
                    return self.call_func(m, args, {}, self_obj=o)
            raise ValueError("no method %s" % meth)
        if isinstance(o, NT):
            d = self.newtypes[o.name]
            for m in d.get("methods", []):
                if m["name"] == meth:
                    return self.call_func(m, args, {}, self_obj=o)
        raise ValueError("mcall on %r" % (o,))

    def call(self, name, args, kw):
        if name in self.funcs:
            return self.call_func(self.funcs[name], args, kw)
        return self.builtin(name, args)

    def call_func(self, f, args, kw, self_obj=None):
        scope = {}
        if self_obj is not None:
            scope["self"] = self_obj
        ps = f["params"]
        for i, p in enumerate(ps):
            if i < len(args):
                scope[p[0]] = args[i]
            elif p[0] in kw:
                scope[p[0]] = kw[p[0]]
            elif p[2] is not None:
                scope[p[0]] = self.ev(p[2], [{}])
            else:
                raise ValueError("missing argument %s" % p[0])
        env = [scope]
        try:
            self.block(f["body"], env, new_scope=False)
        except _Return as r:
            return r.v
        return None

    # ---- statements ----
    def block(self, stmts, env, new_scope=True):
        if new_scope:
            env.append({})
        try:
            for s in stmts:
                self.stmt(s, env)
        finally:
            if new_scope:
                env.pop()

    def stmt(self, s, env):
        self.tick()
        k = s[0]
        if k == "let":
            _, kind, name, ty, e = s
            v = self.ev(e, env)
            if kind == "inferred":
                self.set(env, name, v)  # reassigns an existing binding in any enclosing scope, else binds here
            else:
                env[-1][name] = v
            return
        if k == "assign":
            self.set(env, s[1], self.ev(s[2], env))
            return
        if k == "aug":
            target = s[2]
            cur = self.ev(target, env)
            rhs = self.ev(s[3], env)
            if isinstance(cur, str):
                nv = cur + rhs
            else:
                nv = self.binop(s[1], cur, rhs)
            self.store(target, nv, env)
            return
        if k == "setidx":
            base = self.ev(s[1], env)
            i = self.ev(s[2], env)
            v = self.ev(s[3], env)
            if isinstance(base, list):
                j = norm_index(len(base), i)
                if j is None:
                    raise IncanPanic("IndexError", "index %d out of range for list of length %d" % (i, len(base)))
                base[j] = v
            else:
                base[i] = v
            return
        if k == "setfield":
            o = self.ev(s[1], env)
            o.f[s[2]] = self.ev(s[3], env)
            return
        if k == "print":
            v = self.ev(s[1], env)
            self.emit_value(v)
            return
        if k == "printb":
            self.out.append("T" if self.ev(s[1], env) else "F")
            return
        if k == "if":
            for c, body in s[1]:
                if self.ev(c, env):
                    self.block(body, env)
                    return
            if s[2] is not None:
                self.block(s[2], env)
            return
        if k == "while":
            while self.ev(s[1], env):
                try:
                    self.block(s[2], env)
                except _Break:
                    break
                except _Continue:
                    continue
            return
        if k == "for":
            it = self.ev(s[2], env)
            seq = list(self.iterate(it)) if not isinstance(it, range) else it
            if isinstance(it, range) and len(it) > 100000:
                raise OutOfDomain("huge range")
            for x in seq:
                env.append({s[1]: x})
                try:
                    self.block(s[3], env, new_scope=False)
                except _Break:
                    env.pop()
                    break
                except _Continue:
                    env.pop()
                    continue
                env.pop()
            return
        if k == "break":
            raise _Break()
        if k == "continue":
            raise _Continue()
        if k == "pass":
            return
        if k == "return":
            raise _Return(self.ev(s[1], env) if s[1] is not None else None)
        if k == "expr":
            self.ev(s[1], env)
            return
        if k == "match":
            v = self.ev(s[1], env)
            for pat, body in s[2]:
                b = {}
                guard = None
                if pat[0] == "guard":
                    pat, guard = pat[1], pat[2]
                if self.match(pat, v, b):
                    if guard is not None:
                        env.append(b)
                        try:
                            ok = self.ev(guard, env)
                        finally:
                            env.pop()
                        if not ok:
                            continue
                    env.append(b)
                    try:
                        self.block(body, env, new_scope=False)
                    finally:
                        env.pop()
                    return
            raise OutOfDomain("no match arm matched")
        raise ValueError("stmt %r" % (k,))

    def store(self, target, v, env):
        k = target[0]
        if k == "var":
            self.set(env, target[1], v)
        elif k == "field":
            self.ev(target[1], env).f[target[2]] = v
        elif k == "idx":
            base = self.ev(target[2], env)
            i = self.ev(target[3], env)
            if isinstance(base, list):
                j = norm_index(len(base), i)
                base[j] = v
            else:
                base[i] = v
        else:
            raise ValueError(target)

    def match(self, pat, v, b):
        k = pat[0]
        if k == "wild":
            return True
        if k == "bind":
            b[pat[1]] = v
            return True
        if k == "lit":
            return self.equal(self.ev(pat[1], [{}]), v)
        if k == "tuple":
            return all(self.match(p, x, b) for p, x in zip(pat[1], v))
        if k == "ctor":
            name = pat[1].split(".")[-1]
            if name == "Some":
                return isinstance(v, Some) and self.match(pat[2][0], v.v, b)
            if name == "None":
                return v is None
            if name == "Ok":
                return isinstance(v, Ok) and self.match(pat[2][0], v.v, b)
            if name == "Err":
                return isinstance(v, Err) and self.match(pat[2][0], v.v, b)
            if not isinstance(v, Variant) or v.name != name:
                return False
            return all(self.match(p, x, b) for p, x in zip(pat[2], v.args))
        raise ValueError(pat)

    def emit_value(self, v):
        if isinstance(v, bool):
            raise OutOfDomain("bool rendering is unspecified")
        if isinstance(v, int):
            self.out.append(("i", str(v)))
        elif isinstance(v, float):
            self.out.append(("f", v))
        elif isinstance(v, str):
            if "\n" in v:
                raise OutOfDomain("multi-line print")
            self.out.append(("s", v))
        else:
            raise OutOfDomain("print of a value whose rendering is unspecified")

    def run_main(self, fname="main"):
        """Returns (lines, panic|None)."""
        panic = None
        try:
            self.call(fname, [], {})
        except IncanPanic as p:
            panic = p
        except (_Break, _Continue):
            raise OutOfDomain("break/continue outside loop")
        except RecursionError:
            raise OutOfDomain("recursion depth")
        return self.out, panic


I32_WRAP_SIG = "an int beyond the i32 range is printed modulo 2^32 (a Rust local without a type anchor fell back to i32)"


def _is_i32_wrap(expected, got):
    """True iff `got` is `expected` reduced into the i32 range (and `expected` is outside it): +, - and * commute with that reduction."""
    try:
        e, g = int(expected), int(got)
    except (TypeError, ValueError):
        return False
    return not (-2 ** 31 <= e < 2 ** 31) and ((e + 2 ** 31) % 2 ** 32) - 2 ** 31 == g


def compare_output(exp_lines, exp_panic, stdout, stderr, rc):
    """Compare observed process behaviour with the reference. Returns None if equal, else a signature string."""
    got = stdout.split("\n")
    if got and got[-1] == "":
        got.pop()
    n = min(len(exp_lines), len(got))
    for i in range(n):
        e = exp_lines[i]
        g = got[i]
        if isinstance(e, str):
            if g != e:
                if _is_i32_wrap(e, g):
                    return I32_WRAP_SIG
                return "stdout line %d: expected %r got %r" % (i + 1, e, g)
            continue
        kind, val = e
        if kind in ("i", "s"):
            if g != val:
                if kind == "i" and _is_i32_wrap(val, g):
                    return I32_WRAP_SIG
                return "stdout line %d: expected %r got %r" % (i + 1, val, g)
        else:
            try:
                gv = float(g)
            except ValueError:
                return "stdout line %d: expected a float near %r got %r" % (i + 1, val, g)
            if not (gv == val or abs(gv - val) <= 1e-9 * max(1.0, abs(val))):
                return "stdout line %d: expected %r got %r" % (i + 1, val, g)
    if len(got) < len(exp_lines):
        if exp_panic is None and rc == 0:
            return "stdout ends after %d lines, expected %d (next expected %r)" % (len(got), len(exp_lines), exp_lines[len(got)])
        return "program stopped after %d of %d expected lines (exit %s, stderr %r)" % (len(got), len(exp_lines), rc, stderr.strip()[-120:])
    if len(got) > len(exp_lines):
        return "unexpected extra output line %d: %r" % (len(exp_lines) + 1, got[len(exp_lines)])
    if exp_panic is None:
        if rc != 0:
            return "expected a normal exit, got exit %s with stderr %r" % (rc, stderr.strip()[-160:])
        return None
    if rc != 101:
        return "expected %s (exit 101), got exit %s" % (exp_panic.text(), rc)
    if exp_panic.text() not in stderr:
        return "expected stderr to carry %r, got %r" % (exp_panic.text(), stderr.strip()[-200:])
    return None
