"""C04 / C05: drive the real runtime kernels (kernels/ binary) and compare with independent Python oracles."""
import itertools
import math
import multiprocessing as mp
import random
import struct
import subprocess

from common import KERNELS, KERNELS_DEV, Verdict

MIN = -(2 ** 63)
MAX = 2 ** 63 - 1
ZDE = "!ZeroDivisionError: float division by zero"

INT_B = sorted(set([0, 1, -1, 2, -2, 3, -3, 7, -7, 10, -10, MIN, MIN + 1, MIN + 2, MAX, MAX - 1, MAX - 2,
                    2 ** 31, -2 ** 31, 2 ** 31 - 1, 2 ** 32, -2 ** 32, 2 ** 53, -2 ** 53, 2 ** 53 + 1, -2 ** 53 - 1,
                    2 ** 53 - 1, 2 ** 62, -2 ** 62, 2 ** 62 + 1, 3037000499, 3037000500, -3037000500,
                    MAX // 2, MIN // 2, MAX // 3, MIN // 3, 6, -6, 5, -5, 100, -100, 97, -97, 4, -4]))
FLT_B = [0.0, -0.0, 1.0, -1.0, 0.5, -0.5, 1.5, -1.5, 2.0, -2.0, 3.0, -3.0, 7.0, -7.0, 0.1, -0.1, 0.3, -0.3,
         1e-20, -1e-20, 1e300, -1e300, 5e-324, -5e-324, 2.0 ** 53, -(2.0 ** 53), 2.0 ** 53 + 2, 1e16, -1e16,
         2.2250738585072014e-308, 1.7976931348623157e308, -1.7976931348623157e308, 4.0, -4.0, 6.0, 10.0, -10.0,
         0.7, 7.5, -7.5, 1e-5, 123456.789, -123456.789]


def fbits(x):
    return struct.unpack("<Q", struct.pack("<d", x))[0]


def bits2f(b):
    return struct.unpack("<d", struct.pack("<Q", b))[0]


def fenc(x):
    return "%016x" % fbits(x)


def rand_int(r):
    k = r.random()
    if k < 0.25:
        return r.choice(INT_B)
    if k < 0.5:
        return r.randint(-50, 50)
    if k < 0.7:
        return r.randint(MIN, MAX)
    if k < 0.85:
        return max(MIN, min(MAX, r.choice(INT_B) + r.randint(-3, 3)))
    bitsz = r.randint(1, 63)
    v = r.getrandbits(bitsz)
    return -v if r.random() < 0.5 else v


def rand_float(r):
    k = r.random()
    if k < 0.25:
        return r.choice(FLT_B)
    if k < 0.45:
        return float(r.randint(-40, 40))
    if k < 0.6:
        return r.randint(-400, 400) / 8.0
    if k < 0.8:
        while True:
            v = bits2f(r.getrandbits(64))
            if math.isfinite(v):
                return v
    if k < 0.9:
        return r.uniform(-1e6, 1e6)
    v = r.choice(FLT_B) * r.choice([1.0, 3.0, 0.1, 1e10, 1e-10])
    return v if math.isfinite(v) else 1e300


# --------------------------------------------------------------------------------------------------
# oracles (independent arithmetic: Python big ints / Python floats)
# --------------------------------------------------------------------------------------------------

def f_eq(got_field, exp):
    """Compare an `f<bits>` field with an expected float: bit-equal, up to the sign of zero."""
    if not got_field.startswith("f"):
        return False
    g = bits2f(int(got_field[1:], 16))
    if math.isnan(exp):
        return math.isnan(g)
    if g == 0.0 and exp == 0.0:
        return True
    return fbits(g) == fbits(exp)


def exp_float_ops(a, b):
    """Expected (mod, floordiv, div) for float operands per the property's wording (b != 0)."""
    q = a / b  # IEEE quotient (Python float division of finite operands does not raise unless b == 0)
    if math.isinf(q) or math.isnan(q):
        fd = q
    else:
        fd = float(math.floor(q))
    return (a % b, fd, q)


def check_c04(req, fields):
    """Returns None if everything matches, else a signature string."""
    kind = req[0]
    if kind == "I":
        a, b = req[1], req[2]
        names = ["core.py_mod_i64_impl", "core.py_floor_div_i64_impl", "std.py_mod_i64", "std.py_floor_div_i64",
                 "std.py_mod", "std.py_floor_div", "std.py_div"]
        if b == 0:
            exp = ["-", "-", ZDE, ZDE, ZDE, ZDE, ZDE]
            for n, g, e in zip(names, fields, exp):
                if g != e:
                    return "%s(%d, %d): expected %s got %s" % (n, a, b, e, g)
            return None
        q, r = a // b, a % b
        # independent restatement of the law (guards the oracle itself)
        assert a == q * b + r and (r == 0 or (r < 0) == (b < 0)) and abs(r) < abs(b)
        skip_q = (a == MIN and b == -1)
        exp = [str(r), str(q), str(r), str(q), str(r), str(q), None]
        for k, (n, g, e) in enumerate(zip(names, fields, exp)):
            if e is None:
                if not f_eq(g, float(a) / float(b)):
                    return "%s(%d, %d): expected %r got %s" % (n, a, b, float(a) / float(b), g)
            elif skip_q and k in (1, 3, 5):
                continue
            elif g != e:
                return "%s(%d, %d): expected %s got %s" % (n, a, b, e, g)
        return None
    if kind == "F":
        a, b = req[1], req[2]
        names = ["core.py_mod_f64_impl", "std.py_mod_f64", "std.py_floor_div_f64", "std.py_mod", "std.py_floor_div", "std.py_div"]
        if b == 0.0:
            exp = ["-", ZDE, ZDE, ZDE, ZDE, ZDE]
            for n, g, e in zip(names, fields, exp):
                if g != e:
                    return "%s(%r, %r): expected %s got %s" % (n, a, b, e, g)
            return None
        m, fd, q = exp_float_ops(a, b)
        exp = [m, m, fd, m, fd, q]
    else:
        if kind == "M":
            a, b = float(req[1]), req[2]
        else:
            a, b = req[1], float(req[2])
        names = ["std.py_mod", "std.py_floor_div", "std.py_div"]
        if b == 0.0:
            for n, g in zip(names, fields):
                if g != ZDE:
                    return "%s[%s](%r, %r): expected %s got %s" % (n, kind, req[1], req[2], ZDE, g)
            return None
        m, fd, q = exp_float_ops(a, b)
        exp = [m, fd, q]
    for n, g, e in zip(names, fields, exp):
        if not f_eq(g, e):
            gv = bits2f(int(g[1:], 16)) if g.startswith("f") else g
            return "%s[%s](%r, %r): expected %r got %r" % (n, kind, req[1], req[2], e, gv)
    # sign rule + magnitude (reported through equality with Python; the strict law is asserted when remainder != 0)
    return None


def enc_c04(req):
    k = req[0]
    if k == "I":
        return "I %d %d" % (req[1], req[2])
    if k == "F":
        return "F %s %s" % (fenc(req[1]), fenc(req[2]))
    if k == "M":
        return "M %d %s" % (req[1], fenc(req[2]))
    return "N %s %d" % (fenc(req[1]), req[2])


def cls_num(x):
    if x == 0:
        return "0"
    ax = abs(x)
    m = "s" if ax < 16 else ("m" if ax < 2 ** 31 else ("l" if ax < 2 ** 53 else "x"))
    if isinstance(x, float):
        m += "" if x == math.floor(x) else "frac"
        if ax < 1:
            m = "sub1"
    return ("-" if x < 0 else "+") + m


def key_c04(req):
    a, b = req[1], req[2]
    z = "?"
    try:
        if b != 0:
            z = "z" if (a % b == 0) else "nz"
    except Exception:
        pass
    return (req[0], cls_num(a), cls_num(b), z)


def nontrivial_c04(req):
    return not (req[1] in (0, 1) and req[2] in (0, 1))


def gen_c04_boundary():
    reqs = []
    for a, b in itertools.product(INT_B, INT_B):
        reqs.append(("I", a, b))
    for a, b in itertools.product(FLT_B, FLT_B):
        reqs.append(("F", a, b))
    ints_small = [x for x in INT_B if abs(x) <= 2 ** 53 + 1 or x in (MIN, MAX)]
    for a, b in itertools.product(ints_small, FLT_B):
        reqs.append(("M", a, b))
        reqs.append(("N", b, a))
    return reqs


def gen_c04_random(seed, n):
    r = random.Random(seed)
    reqs = []
    for _ in range(n):
        k = r.random()
        if k < 0.5:
            reqs.append(("I", rand_int(r), rand_int(r)))
        elif k < 0.8:
            reqs.append(("F", rand_float(r), rand_float(r)))
        elif k < 0.9:
            reqs.append(("M", rand_int(r), rand_float(r)))
        else:
            reqs.append(("N", rand_float(r), rand_int(r)))
    return reqs


# ---------------------------------------------------------------------------------------------------
# C05
# ---------------------------------------------------------------------------------------------------
ALPHA = ["a", "b", "é", "€", "\U0001d11e", "́"]
IDX_B = [None, 0, 1, -1, 2, -2, 3, -3, 5, -5, 7, -7, MIN, MIN + 1, MAX, MAX - 1, 2 ** 62, -2 ** 62, 2 ** 31, -2 ** 31, 2 ** 63 - 5]


def henc(s):
    return s.encode("utf-8").hex() or "-"


def oenc(v):
    return "N" if v is None else str(v)


def enc_c05(req):
    k = req[0]
    if k == "X":
        return "X %s %d" % (henc(req[1]), req[2])
    if k == "S":
        return "S %s %s %s %s" % (henc(req[1]), oenc(req[2]), oenc(req[3]), oenc(req[4]))
    if k == "R":
        return "R %d %d %d %d" % (req[1], req[2], req[3], req[4])
    if k == "D":
        return "D %d %d" % (req[1], req[2])
    return "E %s %s" % (henc(req[1]), ",".join(henc(x) for x in req[2]) or "_")


def sdec(field):
    if field.startswith("s"):
        return bytes.fromhex(field[1:]).decode("utf-8")
    return None


def ldec(field):
    if field.startswith("l"):
        body = field[1:]
        return [] if body == "" else [chr(int(x)) for x in body.split(",")]
    return None


def rlen(a, b, c):
    """len(range(a, b, c)) without CPython's ssize_t limit."""
    if c > 0:
        return max(0, (b - a + c - 1) // c)
    return max(0, (a - b - c - 1) // (-c))


def check_c05(req, fields):
    k = req[0]
    if k == "X":
        s, i = req[1], req[2]
        chars = list(s)
        try:
            e = chars[i]
            exp = [("s", e), ("s", e), ("l", [e]), ("l", [e])]
        except IndexError:
            m1 = "!IndexError: string index out of range"
            m2 = "!IndexError: index %d out of range for list of length %d" % (i, len(chars))
            exp = [("!", m1), ("!", m1), ("!", m2), ("!", m2)]
        names = ["core.str_char_at", "std.str_index", "std.list_get", "std.list_get_mut"]
    elif k == "S":
        s, a, b, c = req[1], req[2], req[3], req[4]
        chars = list(s)
        if c == 0:
            m = "!ValueError: slice step cannot be zero"
            exp = [("!", m), ("!", m), ("!", m)]
        else:
            e = chars[a:b:c]
            exp = [("s", "".join(e)), ("s", "".join(e)), ("l", e)]
        names = ["core.str_slice", "std.str_slice", "std.list_slice"]
    elif k == "R":
        a, b, c, cap = req[1], req[2], req[3], req[4]
        names = ["std.range"]
        if c == 0:
            exp = [("!", "!ValueError: range() arg 3 must not be zero")]
        else:
            rg = range(a, b, c)
            head = list(itertools.islice(rg, cap))
            exp = [("r", "r" + ",".join(str(x) for x in head) + ("+" if rlen(a, b, c) > cap else ""))]
    elif k == "D":
        n, key = req[1], req[2]
        names = ["std.dict_get<int>"]
        d = {kk * 3 - 4: kk * 7 + 1 for kk in range(n)}
        exp = [("i", str(d[key]))] if key in d else [("!", "!KeyError: '%d' not found in dict" % key)]
    else:
        key, keys = req[1], req[2]
        names = ["std.dict_get<str>"]
        d = {}
        for n, kk in enumerate(keys):
            d[kk] = n
        exp = [("i", str(d[key]))] if key in d else [("!", "!KeyError: '%s' not found in dict" % key)]
    for n, g, (t, e) in zip(names, fields, exp):
        ok = False
        if t == "s":
            ok = sdec(g) == e
        elif t == "l":
            ok = ldec(g) == e
        else:
            ok = g == e
        if not ok:
            return "%s%r: expected %r got %r" % (n, tuple(req[1:]), e, (sdec(g) if g.startswith("s") else g)[:200])
    if len(fields) != len(exp):
        return "protocol: %d fields for %r" % (len(fields), req)
    return None


def _sg(v, n):
    if v is None:
        return "N"
    if v == 0:
        return "0"
    a = abs(v)
    m = "in" if a < n else ("eq" if a == n else ("near" if a <= n + 1 else ("big" if a < 2 ** 62 else "ext")))
    return ("-" if v < 0 else "+") + m


def key_c05(req):
    k = req[0]
    if k == "X":
        n = len(req[1])
        return (k, min(n, 4), _sg(req[2], n))
    if k == "S":
        n = len(req[1])
        return (k, min(n, 4), _sg(req[2], n), _sg(req[3], n), _sg(req[4], 1))
    if k == "R":
        a, b, c = req[1], req[2], req[3]
        ln = rlen(a, b, c) if c != 0 else -1
        lc = "err" if ln < 0 else ("0" if ln == 0 else ("1" if ln == 1 else ("few" if ln <= 200 else "huge")))
        near = "edge" if (abs(a) > 2 ** 62 or abs(b) > 2 ** 62) else "mid"
        return (k, cls_num(c), lc, near)
    if k == "D":
        return (k, min(req[1], 3), "hit" if (req[2] + 4) % 3 == 0 and 0 <= (req[2] + 4) // 3 < req[1] else "miss")
    return (k, min(len(req[2]), 3), "hit" if req[1] in req[2] else "miss")


def nontrivial_c05(req):
    if req[0] in ("X", "S"):
        return len(req[1]) >= 1
    return True


def all_strings(maxlen):
    for n in range(maxlen + 1):
        for t in itertools.product(ALPHA, repeat=n):
            yield "".join(t)


def gen_c05_boundary(maxlen_exh, idx_set=None):
    idx = idx_set or IDX_B
    reqs = []
    for s in all_strings(maxlen_exh):
        n = len(s)
        cand = set(x for x in idx if x is not None) | {n, -n, n + 1, -n - 1, n - 1}
        for i in sorted(cand):
            reqs.append(("X", s, i))
    return reqs


def gen_c05_slices(seed, nstr, per, maxlen=4):
    r = random.Random(seed)
    reqs = []
    strs = list(all_strings(2)) + ["".join(r.choice(ALPHA) for _ in range(r.randint(3, maxlen + 8))) for _ in range(nstr)]
    for s in strs:
        n = len(s)
        cand = IDX_B + [n, -n, n + 1, -n - 1, n - 1, 1 - n]
        for _ in range(per):
            reqs.append(("S", s, r.choice(cand), r.choice(cand), r.choice(cand + [0, 1, -1, 2, -2, 3])))
    return reqs


def gen_c05_slices_exh():
    """All (start, end, step) triples from a compact boundary set over all strings of length <= 3 (exhaustive part)."""
    reqs = []
    small = [None, 0, 1, -1, 2, -2, 3, -3, 4, -4, MAX, MIN, MAX - 1, MIN + 1]
    steps = [None, 1, -1, 2, -2, 3, -3, 0, MAX, MIN, MAX - 1, MIN + 1, 2 ** 62, -2 ** 62]
    for s in ["", "a", "aé", "a€\U0001d11e", "abé\U0001d11é"]:
        for a, b, c in itertools.product(small, small, steps):
            reqs.append(("S", s, a, b, c))
    return reqs


def gen_c05_ranges(seed, n, cap=200):
    r = random.Random(seed)
    reqs = []
    ext = [MIN, MIN + 1, MIN + 2, MAX, MAX - 1, MAX - 2, 0, 1, -1, 2, -2, 5, -5, 10, -10, 2 ** 62, -2 ** 62, 2 ** 31, 100, -100]
    steps = [1, -1, 2, -2, 3, -3, 7, 0, MAX, MIN, MAX - 1, MIN + 1, 2 ** 62, -2 ** 62, 2 ** 32, 10, -10, 2 ** 63 - 5]
    for a, b, c in itertools.product(ext, ext, steps):
        reqs.append(("R", a, b, c, cap + 2))
    for _ in range(n):
        a = rand_int(r)
        k = r.random()
        if k < 0.5:
            b = max(MIN, min(MAX, a + r.randint(-300, 300)))
        else:
            b = rand_int(r)
        c = r.choice(steps) if r.random() < 0.4 else r.randint(-20, 20)
        reqs.append(("R", a, b, c, cap + 2))
    return reqs


def gen_c05_dicts(seed, n):
    r = random.Random(seed)
    reqs = []
    for _ in range(n):
        if r.random() < 0.5:
            reqs.append(("D", r.randint(0, 6), r.choice([-4, -1, 2, 5, 8, 11, 0, 1, MIN, MAX, r.randint(-10, 20)])))
        else:
            keys = ["".join(r.choice(ALPHA + ["'", " "]) for _ in range(r.randint(0, 3))) for _ in range(r.randint(0, 4))]
            key = r.choice(keys) if keys and r.random() < 0.5 else "".join(r.choice(ALPHA + ["'"]) for _ in range(r.randint(0, 3)))
            reqs.append(("E", key, keys))
    return reqs


# ---------------------------------------------------------------------------------------------------
# execution
# ---------------------------------------------------------------------------------------------------

def run_kernel(binary, lines, timeout):
    p = subprocess.run([binary], input="\n".join(lines) + "\n", stdout=subprocess.PIPE, stderr=subprocess.PIPE,
                       text=True, timeout=timeout)
    if p.returncode != 0:
        raise RuntimeError("kernel binary exit %s: %s" % (p.returncode, p.stderr[-500:]))
    return p.stdout.split("\n")[:-1]


def eval_shard(args):
    """Worker: run one shard of requests; returns (n, bad[(req, sig)], keys, inconclusive_reason|None)."""
    which, reqs, profile = args
    enc, chk, keyf, nontriv = (enc_c04, check_c04, key_c04, nontrivial_c04) if which == "C04" else (enc_c05, check_c05, key_c05, nontrivial_c05)
    binary = KERNELS if profile == "release" else KERNELS_DEV
    lines = [enc(r) for r in reqs]
    bad = []
    keys = set()
    try:
        out = run_kernel(binary, lines, timeout=180)
    except subprocess.TimeoutExpired:
        # attribute the stall to single requests: one operation at a time with a generous budget
        out = []
        for r, l in zip(reqs, lines):
            try:
                out.extend(run_kernel(binary, [l], timeout=20))
            except subprocess.TimeoutExpired:
                out.append("!<no result within 20 s for a single operation>")
    except RuntimeError as e:
        return (0, [], set(), str(e))
    if len(out) != len(reqs):
        return (0, [], set(), "protocol: %d replies for %d requests" % (len(out), len(reqs)))
    for r, o in zip(reqs, out):
        sig = chk(r, o.split("\t"))
        if sig is not None:
            bad.append((r, sig))
        if nontriv(r):
            keys.add(keyf(r))
    return (len(reqs), bad, keys, None)


def eval_one(which, req, profile="release"):
    n, bad, keys, inc = eval_shard((which, [tuple(req)], profile))
    if inc:
        return Verdict("inconclusive", inc)
    if bad:
        return Verdict("violated", bad[0][1])
    return Verdict("held")


def run_parallel(which, reqs, profile, nproc, shard=20000):
    shards = [(which, reqs[i:i + shard], profile) for i in range(0, len(reqs), shard)]
    if not shards:
        return []
    with mp.Pool(min(nproc, len(shards))) as pool:
        return pool.map(eval_shard, shards)


# ---------------------------------------------------------------------------------------------------
# Miri (undefined-behaviour interpreter) on the same kernel binary: thorough tier only
# ---------------------------------------------------------------------------------------------------

def run_miri(which, reqs, timeout=1500):
    """Returns {"ran": n, "ub": [text], "mismatch": [sig], "error": str|None}. Overflow panics under Miri's dev profile are
    reported as mismatches by the caller's policy (advisory); Undefined Behaviour aborts the interpreter and is a violation."""
    import os
    from common import VERIF, BUILD, base_env, crate_dir
    enc, chk = (enc_c04, check_c04) if which == "C04" else (enc_c05, check_c05)
    env = base_env()
    env["CARGO_TARGET_DIR"] = os.path.join(BUILD, "kernels-miri")
    env["MIRIFLAGS"] = "-Zmiri-disable-isolation"
    lines = [enc(r) for r in reqs]
    try:
        p = subprocess.run(["cargo", "+nightly", "miri", "run", "--offline", "--quiet"], cwd=crate_dir("kernels"), env=env,
                           input="\n".join(lines) + "\n", stdout=subprocess.PIPE, stderr=subprocess.PIPE, text=True, timeout=timeout)
    except subprocess.TimeoutExpired:
        return {"ran": 0, "ub": [], "mismatch": [], "error": "miri watchdog"}
    out = [l for l in p.stdout.split("\n") if l]
    res = {"ran": len(out), "ub": [], "mismatch": [], "error": None}
    if "Undefined Behavior" in p.stderr:
        res["ub"].append(p.stderr[p.stderr.index("Undefined Behavior") - 10:][:400])
    elif p.returncode != 0 and len(out) < len(lines):
        res["error"] = "miri exited %s after %d of %d replies: %s" % (p.returncode, len(out), len(lines), p.stderr.strip()[-200:])
    for r, o in zip(reqs, out):
        sig = chk(r, o.split("\t"))
        if sig is not None:
            res["mismatch"].append(sig)
    return res


def miri_parallel(which, reqs, nproc=8):
    shards = [reqs[i::nproc] for i in range(nproc)]
    with mp.Pool(nproc) as pool:
        return pool.starmap(run_miri, [(which, s) for s in shards if s])
