#!/usr/bin/env python3
"""Regenerate MANIFEST.json from the table below (keeps the file valid at all times)."""
import json
import os

VERIF = os.path.dirname(os.path.dirname(os.path.abspath(__file__)))

# property -> (technique, level text, level note, design ref)
CHECKS = {
 "C04": ("reference-model monitor: real kernels vs Python big-int/float oracle over boundary cross products and random pairs; dev-profile (overflow-checks) run as advisory detector",
         "Every kernel entry point of incan_core and incan_stdlib::num is executed on the full cross product of boundary operands plus millions of random pairs; each observed result (value or panic text) is compared with independent Python arithmetic. Exploration: held on the pairs executed, nothing more.",
         "Trusts CPython's int/float arithmetic and IEEE-754 doubles on this host; the operator->helper selection in the emitter is covered end to end by C01/C07 programs.", "5/C04"),
 "C05": ("reference-model monitor: real index/slice/range/dict kernels vs CPython sequences over exhaustive small strings x boundary bounds and random triples; logical step cap for range",
         "All strings over a 6-symbol multi-byte alphabet up to a length bound x boundary indices, a boundary cross product of (start,end,step) and of range triples, plus random cases, executed against the real runtime and compared with CPython. Exploration.",
         "Trusts CPython's str/list/range; a single operation without result in 20 s is taken as non-terminating.", "5/C05"),
 "C08": ("metamorphic monitor: span-erased AST of parse(x) vs parse(format_source(x)) in-process on grammar-generated files + repository/docs corpus",
         "Thousands of generated files covering every AST node kind / optional field (feature-accounted) and every parseable corpus file are formatted by the real formatter; the output must parse to the same AST up to spans and three documented normalisations. Exploration of the generated space, not a proof about the formatter.",
         "Trusts the Debug dump of the AST as a faithful rendering of the tree; normalisations: docstring whitespace, (A,B)=Tuple[A,B], ()=None.", "5/C08"),
 "C09": ("metamorphic monitor: fmt(fmt(x)) == fmt(x), output hygiene from the output's own token spans, and real `incan fmt` / `--check` / `--diff` runs on scratch directories (bytes + mtime snapshots)",
         "Same inputs as C08 (restricted to those whose formatted text parses): idempotence, exactly one final newline, no tab/trailing blank outside string tokens; CLI scenarios in file and directory mode. Exploration.",
         "String extents are taken from the lexer under test run on the formatter's output; CLI scenarios assume a POSIX filesystem with ns mtimes.", "5/C09"),
 "C10": ("metamorphic monitor: span-erased AST equality under token-position-aware layout edits (comments, blank lines, trailing blanks, final newline, CRLF, bracket line breaks, re-indentation)",
         "Each valid file (generated + corpus) is edited at all/sampled eligible positions computed from its own token stream; every edited text is parsed by the real lexer/parser and must give the same tree. Exploration over (edit kind x lexer state) classes.",
         "Edits never touch the inside of string-like tokens; CRLF/re-indent skip files with multi-line strings.", "5/C10"),
 "C11": ("invariant monitor: every stage of the real front end run under catch_unwind on hostile inputs with diagnostic well-formedness assertions and all three renderers; crash/stall attribution per input; CLI exit-status monitor",
         "Tens of thousands (thorough: >1M) of random, token-soup, mutated-valid, deeply nested, numeric-boundary, escape-next-to-multibyte and wrong-arity-generic inputs pushed through lex/parse/check/format/emit in-process, plus the real CLI on a sample. Exploration; the depth bound (150) is part of the claim.",
         "catch_unwind catches panics only; aborts/stack overflows are seen as a dead harness process and attributed to the input in flight. The harness is built with integer overflow checks on, so an overflow inside the compiler (a panic in dev builds, a silent wrap in release builds) is observed.", "5/C11"),
 "C19": ("reference-model monitor, exhaustive for a bounded space: all documents over a 6-symbol multi-byte alphabet up to length 6/7 x all offsets and span pairs, against an independent prefix counter; second oracle in Python on random long documents; terminal line:col vs the same count",
         "Exhaustive enumeration (exhaustive: true for the stated bound) plus random long documents; every conversion is executed by the real functions.", 
         "Characters are Unicode scalars; LF is the only line terminator.", "5/C19"),
 "C07": ("reference-model monitor, exhaustive for a bounded space: operator x operand-kind x exponent-kind shapes x binding positions; checker verdicts in-process against a transcription of the documented table, then rustc verdict + printed value of every accepted shape against incanref",
         "Every depth-1 shape (thorough: depth-2 nestings) is checked in every binding position by the real TypeChecker (accept T / reject other kinds), and every accepted shape is built by the real `incan build` and run; value and numeric kind must match the reference. Exploration, exhaustive for the stated depth.",
         "The table transcription (25 lines) is the oracle; `x: float = <int expr>` is left unspecified.", "5/C07"),
 "C01": ("reference-model monitor: generated well-typed programs compiled by the real `incan build`, executed, and compared (stdout lines, exit status, `Kind: message`) with the independent reference interpreter incanref; batched with per-case re-run and delta reduction",
         "Hundreds (thorough: thousands) of type-directed generated cases over scalars, strings, lists, dicts, Option, models/classes with methods, enums + match, helper functions, control flow and error paths are built and run for real; every printed line and the way the program stops must be what the documented semantics assign. Exploration over a feature-accounted catalogue; quarantined features are listed in evidence.",
         "The reference implements only documented rules (DESIGN Appendix A); undocumented renderings are neutralised (floats numeric, bools via if/else, collections element-wise).", "5/C01"),
 "C02": ("implication monitor on the two real commands: every generated case and every repository/docs program that `incan --check` accepts is submitted to `incan build`; rustc's first error is the failure signature",
         "Accepted => builds, observed on generated programs from the catalogue and on the repository's own programs; programs that fail on the unchanged tree are pinned one by one (path + rustc error) as known findings.",
         "A crate missing from the offline registry is environmental (inconclusive).", "5/C02"),
 "C03": ("mutation monitor: rule x context matrix of single-edit ill-typed twins of well-typed hosts, decided by the real TypeChecker in-process with span containment of the diagnostic in the offending construct",
         "Every documented static rule of the property is broken once in every statement/expression/declaration context (function and method hosts, nesting to depth 3, k host variations); the twin must be rejected with a diagnostic located inside the edited construct and the host accepted.",
         "The offending construct is the smallest statement/declaration containing the edit; spans are compared on their non-blank extent.", "5/C03"),
 "C18": ("history checker over recorded client-boundary histories of the real language server (tower-lsp service, JSON-RPC framing, paused tokio time) under enumerated and randomised delay vectors at its await points (cfg incan_verif hook) and client back-pressure, against a sequential last-writer-wins model",
         "Thousands of burst histories (exhaustive delay vectors for bursts of 2-3 handlers, random for 3-12 messages over 1-3 documents) are executed by the real server; texts are unambiguous per (document, version), so every reply and publish identifies the version it was computed from. Evidence reports the distinct handler store orders actually observed.",
         "Interleaving granularity = the server's existing await points (handlers are polled cooperatively); liveness is restated as quiescence within 60 virtual seconds.", "5/C18"),
 "C14": ("differential monitor over generated project trees: files picked by the command-line collector vs the files the real language server loads (the set of files it publishes diagnostics for after the entry file is opened over JSON-RPC) vs a reference transcription of the documented rule; visibility / cycle / missing-module scenarios through the real `incan --check` with a watchdog",
         "Hundreds (thorough: thousands) of directory layouts x import spellings are resolved by the real code paths in-process; every declaration kind x visibility x import form x module-path spelling (plain, crate::, super::, .., nested, mod.incn, reserved-root-prefixed names) goes through the CLI. Exploration over scenario classes.",
         "The reference resolver is consulted on layouts where the documented rule is unambiguous (.incn before .incan is documented).", "5/C14"),
 "C12": ("metamorphic monitor over process instances: the real `incan` commands run in N separate processes (own hash seeds) at different locations / environments / file creation orders; byte equality of exit status, stdout, stderr and the whole generated tree",
         "12 (thorough: 40) process instances per program over programs that stress every hash-ordered container reaching output (2-6 rust:: imports, several types/traits, multi-file projects, ill-typed programs with several diagnostics from one construct, grammar-generated files). Exploration; an order flip of two elements escapes N instances with probability 2^-(N-1).",
         "Tracing timestamps are log metadata and are stripped; Incan's own switches are held fixed.", "5/C12"),
 "C15": ("invariant monitor on the generated project of the real `incan build` (cargo stubbed; a subset compiled for real): TOML validity, package/bin names, pinned-or-path dependencies, declared crate set == crate roots referenced by the generated Rust (+ rust:: imports), refusal of unknown crates",
         "Hundreds (thorough: thousands) of programs over all combinations of feature triggers and placements, project names and rust:: import sets; the final word on omitted crates is rustc on the really-built subset.",
         "Crate roots are extracted lexically from the generated Rust; real builds are limited to crates present in the offline registry (serde, serde_json, tokio).", "5/C15"),
 "C16": ("ground-truth monitor on the real `incan test`: generated test files whose verdicts are known by construction, marker files written by the test bodies as the witness of execution, summary/exit-status consistency",
         "Every generated test function (9 body kinds x markers x -k/--slow/-x selections) is run by the real runner in its own cargo test; verdict lines, marker files, summary counts and exit status must agree with the truth. Exploration.",
         "Fixtures are not generated (the runner does not wire them into the harness project).", "5/C16"),
 "C17": ("trace monitor (exactly-once / ordering over a printed event trace): HOOK and MADE events of compiled programs constructing newtypes at every site kind with valid and invalid values; nominal-typing verdicts from the real TypeChecker",
         "Every hook shape x underlying type x construction site is executed in real compiled programs; the stdout trace must show exactly one HOOK per construction with the same value, no value produced after a rejection, and exit 101 with the validation failure.",
         "The hook is identified by its printed trace; constructions inside the type's own methods are exempt.", "5/C17"),
 "C20": ("reference-model monitor: compiled programs print json_stringify / from_json round trips / == / < / dict-key collisions for generated models; Python's json parser and tuple comparison are the oracle",
         "Hundreds (thorough: thousands) of declaration x value observations over all field types and boundary values are made on real compiled programs; JSON is compared after parsing (spelling-neutral).", 
         "Clone independence is not observable on this tree (`.clone()` on a model is rejected by the checker) and is reported as such.", "5/C20"),
 "C13": ("metamorphic monitor: a building, running generated host P and its consistently renamed twin rho(P) (one identifier position x one name class at a time) through the real `incan --check` / `incan build` / execution; equality of exit status and stdout",
         "Position x name-class cells (locals, parameters, loop/match/comprehension variables, functions, methods, fields, types, variants x Rust-only keywords, names the generated code relies on, case and underscore/digit shapes) are covered one renaming at a time so a failure is attributable.",
         "Renaming is textual over code segments only (string literal text is untouched, f-string sub-expressions are renamed); hosts print nothing derived from identifiers.", "5/C13"),
 "C06": ("metamorphic + reference-model monitor: every generated const-evaluable expression is evaluated on both real paths (`const C = e` and `def f(): return e`) in one compiled program, compared with each other, with incanref and with the compiler's recorded TypeCheckInfo.const_values; error parity and cycle scenarios through the real checker with a watchdog",
         "Const DAGs of 10 expressions per program over ints, floats, bools and strings (arithmetic incl. // % ** /, comparisons, and/or, concat chains, index/slice with out-of-range constants and zero step, membership), plus const cycles of length 1-4. Exploration.",
         "String concatenation and bare str-const returns have no buildable run-time twin on this tree (known C02 findings) and are compared against the reference and the recorded const value only.", "5/C06"),
}
WIP = "check not built yet in this round (work in progress; see DESIGN.md section 5 for the planned monitor)"
ALL = ["C%02d" % i for i in range(1, 21)]


def main():
    checks = []
    for pid in ALL:
        if pid not in CHECKS:
            continue
        tech, text, note, ref = CHECKS[pid]
        checks.append({
            "property_id": pid,
            "quick_cmd": "./check %s --tier quick" % pid,
            "thorough_cmd": "./check %s --tier thorough" % pid,
            "evidence_file": "/verif/evidence/%s.json" % pid,
            "replay_cmd_template": "./check %s --replay {path}" % pid,
            "engine": "incan-verif",
            "level_claimed": {"category": "exploration", "text": text, "design_ref": "DESIGN.md section " + ref},
            "level_note": note,
            "technique": tech,
        })
    hooks_commits = []
    hc = os.path.join(VERIF, "hook_commits.txt")
    if os.path.exists(hc):
        hooks_commits = [l.split()[0] for l in open(hc) if l.strip()]
    m = {
        "version": 1,
        "setup_cmd": "./check --setup",
        "hooks": {
            "guard": "incan_verif",
            "enable": "RUSTFLAGS=\"--cfg incan_verif\" (a rustc cfg, not a cargo feature; set by lib/common.py for every build of /repo and of the harness)",
            "baseline_off_cmd": "cd /repo && cargo test --workspace --no-fail-fast --offline",
            "source_commits": hooks_commits,
            "add_only": True,
        },
        "engines": [{"name": "incan-verif", "path": "/verif/check", "serves_properties": sorted(CHECKS),
                     "kind_free_text": "runtime monitoring: python drivers + Rust harness linking the real incan library + kernels binary + real incan/incan-lsp binaries; reference-model, metamorphic and history-checking oracles over observed executions"}],
        "checks": checks,
        "not_applicable": [{"property_id": p, "reason": WIP} for p in ALL if p not in CHECKS],
        "notes": "Exit codes: 0 held (KNOWN-FINDING lines allowed), 1 VIOLATION, 2 broken/inconclusive run (never with a VIOLATION line). known_findings.json is read-only at run time.",
    }
    with open(os.path.join(VERIF, "MANIFEST.json"), "w") as f:
        json.dump(m, f, indent=1)
        f.write("\n")


if __name__ == "__main__":
    main()
