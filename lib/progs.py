"""Build-and-run service for generated Incan programs: the *real* `incan build`, with one shared CARGO_TARGET_DIR per worker.

A job is a dict: {"name": stem, "files": {relpath: text}, "entry": relpath, "run": bool, "check": bool, "stdin": str|None,
"args": [...], "stub_cargo": bool}.  Result: {"check": {...}|None, "build": {"rc", "stdout", "stderr"}, "run": {...}|None,
"tree": {relpath: text} (generated project files, when asked via "want_tree")}.
"""
import multiprocessing as mp
import os
import shutil
import subprocess
import time

from common import BUILD, INCAN, NCPU, base_env

GEN = os.path.join(BUILD, "gen")
SCRATCH = os.path.join(BUILD, "scratch")
STUB_DIR = os.path.join(BUILD, "stubbin")
RUN_TIMEOUT = 10
BUILD_TIMEOUT = 600


def ensure_stub():
    os.makedirs(STUB_DIR, exist_ok=True)
    p = os.path.join(STUB_DIR, "cargo")
    if not os.path.exists(p):
        with open(p, "w") as f:
            f.write("#!/bin/sh\n# stub: lets `incan build` generate the project without compiling it\nexit 0\n")
        os.chmod(p, 0o755)
    return STUB_DIR


def _cargo_home(worker):
    """Per-worker CARGO_HOME sharing the real registry by symlink: cargo serialises on `$CARGO_HOME/.package-cache`,
    which would otherwise make 16 concurrent `incan build`s run one after another."""
    real = os.environ.get("CARGO_HOME") or os.path.expanduser("~/.cargo")
    d = os.path.join(BUILD, "cargo_home", "w%d" % worker)
    if not os.path.exists(os.path.join(d, "registry")):
        os.makedirs(d, exist_ok=True)
        try:
            os.symlink(os.path.join(real, "registry"), os.path.join(d, "registry"))
        except FileExistsError:
            pass
        cfg = os.path.join(real, "config.toml")
        if os.path.exists(cfg):
            shutil.copy(cfg, os.path.join(d, "config.toml"))
    return d


def _env(worker, stub=False, extra=None):
    e = base_env()
    e["CARGO_TARGET_DIR"] = os.path.join(GEN, "w%d" % worker)
    e["CARGO_HOME"] = _cargo_home(worker)
    if "RUSTUP_HOME" not in e:
        e["RUSTUP_HOME"] = os.path.expanduser("~/.rustup")
    e["NO_COLOR"] = "1"
    if stub:
        e["PATH"] = ensure_stub() + os.pathsep + e.get("PATH", "")
    if extra:
        e.update(extra)
    return e


def _run(cmd, cwd, env, timeout, stdin=None):
    t0 = time.time()
    try:
        p = subprocess.run(cmd, cwd=cwd, env=env, input=stdin, stdout=subprocess.PIPE, stderr=subprocess.PIPE, timeout=timeout)
        return {"rc": p.returncode, "stdout": p.stdout.decode("utf-8", "replace"), "stderr": p.stderr.decode("utf-8", "replace"),
                "wall": time.time() - t0}
    except subprocess.TimeoutExpired as ex:
        return {"rc": None, "timeout": True, "stdout": (ex.stdout or b"").decode("utf-8", "replace"),
                "stderr": (ex.stderr or b"").decode("utf-8", "replace"), "wall": time.time() - t0}


def run_job(job, worker):
    """Executes one job in the worker's scratch dir. Always cleans up."""
    d = os.path.join(SCRATCH, "w%d" % worker)
    shutil.rmtree(d, ignore_errors=True)
    os.makedirs(d)
    out = {"check": None, "build": None, "run": None}
    try:
        for rel, txt in job["files"].items():
            p = os.path.join(d, rel)
            os.makedirs(os.path.dirname(p), exist_ok=True)
            with open(p, "w", encoding="utf-8") as f:
                f.write(txt)
        entry = job["entry"]
        stub = bool(job.get("stub_cargo"))
        env = _env(worker, stub, job.get("env"))
        if job.get("check"):
            out["check"] = _run([INCAN, "--check", entry], d, env, 120)
            if out["check"]["rc"] != 0 and not job.get("build_anyway"):
                return out
        if job.get("build", True):
            out["build"] = _run([INCAN, "build", entry, "out"], d, env, BUILD_TIMEOUT)
            if job.get("want_tree"):
                tree = {}
                for root, _, files in os.walk(os.path.join(d, "out")):
                    if "/target" in root:
                        continue
                    for fn in files:
                        p = os.path.join(root, fn)
                        try:
                            tree[os.path.relpath(p, os.path.join(d, "out"))] = open(p, encoding="utf-8").read()
                        except (UnicodeDecodeError, OSError):
                            pass
                out["tree"] = tree
            name = job.get("name") or os.path.splitext(os.path.basename(entry))[0]
            binp = os.path.join(env["CARGO_TARGET_DIR"], "release", name)
            if out["build"]["rc"] == 0 and job.get("run") and not stub:
                if os.path.exists(binp):
                    renv = base_env()
                    renv["RUST_BACKTRACE"] = "0"
                    out["run"] = _run([binp] + job.get("args", []), d, renv, RUN_TIMEOUT, (job.get("stdin") or "").encode())
                else:
                    out["run"] = {"rc": None, "missing_binary": binp, "stdout": "", "stderr": ""}
            try:
                if os.path.exists(binp):
                    os.remove(binp)
            except OSError:
                pass
        return out
    finally:
        shutil.rmtree(d, ignore_errors=True)


def worker_lock(worker):
    """Exclusive use of worker slot `worker` (its target dir, scratch dir and cargo home) across concurrently running checks."""
    import fcntl
    os.makedirs(GEN, exist_ok=True)
    f = open(os.path.join(GEN, "w%d.lock" % worker), "w")
    fcntl.flock(f, fcntl.LOCK_EX)
    return f


def _worker(args):
    worker, jobs = args
    lock = worker_lock(worker)
    try:
        return [run_job(j, worker) for j in jobs]
    finally:
        lock.close()


def run_jobs(jobs, nproc=NCPU):
    """Distribute jobs over workers (each with its own target dir); results in job order."""
    os.makedirs(GEN, exist_ok=True)
    os.makedirs(SCRATCH, exist_ok=True)
    if not jobs:
        return []
    nproc = max(1, min(nproc, len(jobs)))
    buckets = [[] for _ in range(nproc)]
    idx = [[] for _ in range(nproc)]
    for i, j in enumerate(jobs):
        buckets[i % nproc].append(j)
        idx[i % nproc].append(i)
    with mp.Pool(nproc) as pool:
        res = pool.map(_worker, [(w, buckets[w]) for w in range(nproc)])
    out = [None] * len(jobs)
    for w in range(nproc):
        for i, r in zip(idx[w], res[w]):
            out[i] = r
    return out


WARM_SRC = "def main() -> None:\n    println(1 // 1)\n"
WARM_SERDE = ("@derive(Serialize, Deserialize)\nmodel W:\n    a: int\n\n\ndef main() -> None:\n    w = W(a=1)\n    println(json_stringify(w))\n")


def warm_pools(nproc=NCPU, serde=True):
    jobs = [{"name": "warm", "files": {"warm.incn": WARM_SRC}, "entry": "warm.incn", "run": True} for _ in range(nproc)]
    res = run_jobs(jobs, nproc)
    ok = sum(1 for r in res if r["build"] and r["build"]["rc"] == 0)
    if serde:
        jobs = [{"name": "warms", "files": {"warms.incn": WARM_SERDE}, "entry": "warms.incn", "run": True} for _ in range(nproc)]
        res2 = run_jobs(jobs, nproc)
        ok2 = sum(1 for r in res2 if r["build"] and r["build"]["rc"] == 0)
        print("pool warm-up: %d/%d plain, %d/%d serde" % (ok, nproc, ok2, nproc))
        if ok2 < nproc and res2:
            bad = [r for r in res2 if not (r["build"] and r["build"]["rc"] == 0)][0]
            print((bad["build"] or {}).get("stderr", "")[-600:])
    return ok


def prune_pools():
    """Remove per-program artefacts from the shared target dirs (deps stay)."""
    import glob
    for w in glob.glob(os.path.join(GEN, "w*")):
        for sub in ("release/incremental",):
            shutil.rmtree(os.path.join(w, sub), ignore_errors=True)
