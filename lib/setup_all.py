"""./check --setup : build everything the checks need from files on disk only (offline)."""
import os
import time

import common


def main():
    t0 = time.time()
    os.makedirs(common.BUILD, exist_ok=True)
    print("building /repo (release, --cfg incan_verif) ...", flush=True)
    common.build_repo()
    print("building kernels (release + dev) ...", flush=True)
    common.build_kernels(dev=True)
    print("building kernels for Miri (thorough tier of C04/C05) ...", flush=True)
    try:
        import kern
        r = kern.run_miri("C04", [("I", 7, 2)], timeout=1200)
        print("  miri ready: %s" % ("ok" if r["ran"] == 1 else r))
    except Exception as e:  # Miri is an extra detector; its absence must not break setup
        print("  miri unavailable: %s" % e)
    print("building harness ...", flush=True)
    common.build_harness()
    try:
        import progs
        progs.warm_pools()
    except ImportError:
        pass
    print("setup done in %.0fs" % (time.time() - t0))
    return 0
