#!/bin/sh
# Run every check at a tier/seed; prints one status line per property. Usage: ./run_all.sh [quick|thorough] [seed] [properties...]
TIER=${1:-quick}; SEED=${2:-1}
[ $# -ge 2 ] && shift 2 || shift $#
PROPS=${*:-C01 C02 C03 C04 C05 C06 C07 C08 C09 C10 C11 C12 C13 C14 C15 C16 C17 C18 C19 C20}
mkdir -p .build
for p in $PROPS; do
  L=.build/run_${p}_${TIER}_${SEED}.log
  VERIF_SEED=$SEED ./check $p --tier $TIER > $L 2>&1; rc=$?
  echo "$p rc=$rc $(grep -c '^VIOLATION' $L) violations, $(grep -c '^KNOWN-FINDING' $L) known | $(grep -E "^$p (quick|thorough)" $L | tail -1)"
done
