#!/bin/sh
# Run every check at a tier/seed; prints one status line per property. Usage: ./run_all.sh [quick|thorough] [seed]
TIER=${1:-quick}; SEED=${2:-1}
for p in C01 C02 C03 C04 C05 C06 C07 C08 C09 C10 C11 C12 C13 C14 C15 C16 C17 C18 C19 C20; do
  VERIF_SEED=$SEED ./check $p --tier $TIER > .build/run_$p.log 2>&1; rc=$?
  echo "$p rc=$rc $(grep -c '^VIOLATION' .build/run_$p.log) violations, $(grep -c '^KNOWN-FINDING' .build/run_$p.log) known | $(grep -E "^$p (quick|thorough)" .build/run_$p.log | tail -1)"
done
