#!/bin/bash
# confirm_seeded.sh <worktree> <patch>...: in the scratch worktree apply each patch alone, run the repository's pinned suite, undo.
# Prints one line per patch: "<patch> passed=<n> failed=<m> rc=<rc>".
wt="$1"; shift
cd "$wt" || exit 2
for p in "$@"; do
  git apply "$p" || { echo "$p APPLY-FAILED"; continue; }
  out=$(CARGO_NET_OFFLINE=true cargo test --workspace --no-fail-fast --offline 2>&1); rc=$?
  echo "$out" | grep -E "^test result" | awk -v p="$p" -v rc=$rc '{a+=$4; f+=$6} END{print p, "passed="a, "failed="f, "rc="rc}'
  echo "$out" | grep -E "^test .* FAILED|error(\[|:)" | head -5
  git apply -R "$p"
done
git status --short | grep -v "^??" | head
