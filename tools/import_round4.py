#!/usr/bin/env python3
"""import_round4.py <Cxx> <k>: round-4 layout. The sub-agent left /tmp/mut/Cxx/out/{patch.diff,demo/,meta.json} and the change applied in
the worktree. This script (1) resets the worktree's tracked files, (2) applies out/patch.diff alone, (3) runs the pinned suite there,
(4) undoes it, and only if the suite passed copies the deliverables to /verif/seeded/Cxx-k/ with what I ran."""
import json, os, re, shutil, subprocess, sys
prop, k = sys.argv[1], sys.argv[2]
wt = "/tmp/mut/%s" % prop
out = wt + "/out"
def sh(c):
    return subprocess.run(c, shell=True, cwd=wt, capture_output=True, text=True)
sh("git checkout -- .")
a = sh("git apply %s/patch.diff" % out)
if a.returncode:
    print(prop, "APPLY-FAILED", a.stderr[:300]); sys.exit(2)
r = sh("CARGO_NET_OFFLINE=true cargo test --workspace --no-fail-fast --offline 2>&1")
passed = failed = 0
for m in re.finditer(r"^test result: \w+\. (\d+) passed; (\d+) failed", r.stdout, re.M):
    passed += int(m.group(1)); failed += int(m.group(2))
print(prop, "passed=%d failed=%d rc=%d" % (passed, failed, r.returncode))
if failed or r.returncode or passed < 450:
    print(r.stdout[-1500:]); sys.exit(1)
d = "/verif/seeded/%s-%s" % (prop, k)
shutil.rmtree(d, ignore_errors=True); os.makedirs(d)
shutil.copy(out + "/patch.diff", d + "/patch.diff")
if os.path.isdir(out + "/demo"):
    shutil.copytree(out + "/demo", d + "/demo", ignore=shutil.ignore_patterns("target", "out*", "*.lock"))
try:
    meta = json.load(open(out + "/meta.json"))
except Exception as e:
    meta = {}
meta["property"] = prop
meta["author"] = "fresh sub-agent given only the property text and a scratch worktree"
meta["confirmed_by_me"] = {
    "suite": "in the scratch worktree, patch applied alone: cargo test --workspace --no-fail-fast --offline -> passed=%d failed=%d rc=%d" % (passed, failed, r.returncode),
    "base_commit": sh("git rev-parse --short HEAD").stdout.strip(), "round": 4}
json.dump(meta, open(d + "/meta.json", "w"), indent=1)
print("imported", d, "(worktree left with the patch applied for the demo run)")
