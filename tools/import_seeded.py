#!/usr/bin/env python3
"""import_seeded.py <Cxx> <confirm-log>: copy a sub-agent's deliverables (/tmp/mut/Cxx/_seeded) into /verif/seeded/Cxx-k/ and add to
meta.json what *I* ran to confirm it (suite result from the confirm log)."""
import json, os, shutil, sys, re
prop, log = sys.argv[1], sys.argv[2]
base = sys.argv[3] if len(sys.argv) > 3 else "/tmp/mut"
offset = int(sys.argv[4]) if len(sys.argv) > 4 else 0
src = "%s/%s/_seeded" % (base, prop)
conf = open(log).read()
for k in (1, 2):
    p = os.path.join(src, "patch%d.diff" % k)
    if not os.path.exists(p):
        continue
    m = re.search(re.escape(p) + r" passed=(\d+) failed=(\d+) rc=(\d+)", conf)
    if not m or m.group(2) != "0" or m.group(3) != "0":
        print(prop, k, "NOT CONFIRMED", m.groups() if m else None)
        continue
    d = "/verif/seeded/%s-%d" % (prop, k + offset)
    shutil.rmtree(d, ignore_errors=True)
    os.makedirs(d)
    shutil.copy(p, os.path.join(d, "patch.diff"))
    if os.path.isdir(os.path.join(src, "demo%d" % k)):
        shutil.copytree(os.path.join(src, "demo%d" % k), os.path.join(d, "demo"), ignore=shutil.ignore_patterns("target", "out*", "*.lock"))
    for extra in ("roundtrip.sh",):
        if os.path.exists(os.path.join(src, extra)):
            shutil.copy(os.path.join(src, extra), d)
    try:
        meta = json.load(open(os.path.join(src, "meta%d.json" % k)))
    except Exception:
        meta = {"property": prop}
    meta["property"] = prop
    meta["author"] = "fresh sub-agent given only the property text and a scratch worktree"
    meta["confirmed_by_me"] = {
        "suite": "in the scratch worktree, patch applied alone: cargo test --workspace --no-fail-fast --offline -> passed=%s failed=%s rc=%s" % m.groups(),
        "base_commit": os.popen("git -C %s/%s rev-parse --short HEAD" % (base, prop)).read().strip(),
        "round": 2 if offset else 1,
    }
    json.dump(meta, open(os.path.join(d, "meta.json"), "w"), indent=1)
    print("imported", d)
