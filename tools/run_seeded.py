#!/usr/bin/env python3
"""run_seeded.py <seeded-id>... [--tier quick|thorough] [--seed N]

For each /verif/seeded/<id>/: applies patch.diff to /repo (which must be clean), runs the check of the property the change breaks,
undoes the patch straight afterwards (always), and writes /verif/seeded/<id>/detection.json: exit status, number of VIOLATION lines,
the first signatures. Nothing is ever committed to /repo. Evidence files of the property are restored afterwards (they must describe
the unchanged tree)."""
import json
import os
import subprocess
import sys
import time

ROOT = os.path.dirname(os.path.dirname(os.path.abspath(__file__)))
REPO = "/repo"


def sh(cmd, **kw):
    return subprocess.run(cmd, shell=True, capture_output=True, text=True, **kw)


def main():
    args = [a for a in sys.argv[1:] if not a.startswith("--")]
    tier = "quick"
    seed = "1"
    for i, a in enumerate(sys.argv):
        if a == "--tier":
            tier = sys.argv[i + 1]
            args.remove(tier)
        if a == "--seed":
            seed = sys.argv[i + 1]
            args.remove(seed)
    if sh("git -C %s status --porcelain --untracked-files=no" % REPO).stdout.strip():
        print("refusing: /repo has uncommitted changes")
        return 2
    rc_all = 0
    for sid in args:
        d = os.path.join(ROOT, "seeded", sid)
        meta = json.load(open(os.path.join(d, "meta.json")))
        prop = meta["property"]
        checks = meta.get("checks", [prop])
        ev_backup = {}
        for c in checks:
            p = os.path.join(ROOT, "evidence", c + ".json")
            if os.path.exists(p):
                ev_backup[p] = open(p).read()
        a = sh("git -C %s apply %s" % (REPO, os.path.join(d, "patch.diff")))
        if a.returncode != 0:
            print(sid, "patch does not apply:", a.stderr.strip()[:200])
            rc_all = 2
            continue
        det = {"tier": tier, "seed": int(seed), "checks": {}}
        try:
            for c in checks:
                t0 = time.time()
                r = sh("./check %s --tier %s" % (c, tier), cwd=ROOT, env=dict(os.environ, VERIF_SEED=seed))
                lines = [l for l in r.stdout.split("\n") if l.strip()]
                viol = [l for l in lines if l.startswith("VIOLATION")]
                sigs = [l.strip() for l in lines if l.strip().startswith("signature:")]
                det["checks"][c] = {"exit": r.returncode, "violation_lines": len(viol), "first_signatures": sigs[:5],
                                    "summary": [l for l in lines if l.startswith(c + " ")][-1:], "wall_s": round(time.time() - t0, 1)}
                print(sid, c, "exit=%d" % r.returncode, "violations=%d" % len(viol), (sigs[:1] or [""])[0][:140])
        finally:
            sh("git -C %s apply -R %s" % (REPO, os.path.join(d, "patch.diff")))
            sh("git -C %s checkout -- ." % REPO)
            for p, s in ev_backup.items():
                open(p, "w").write(s)
            sh("rm -rf %s" % " ".join(os.path.join(ROOT, "replay", c) + "/v%s_%s_*" % (tier[0], seed) for c in checks))
        det["detected"] = any(v["exit"] == 1 and v["violation_lines"] > 0 for v in det["checks"].values())
        json.dump(det, open(os.path.join(d, "detection.json"), "w"), indent=1)
        if not det["detected"]:
            rc_all = max(rc_all, 1)
    return rc_all


if __name__ == "__main__":
    sys.exit(main())
