#!/usr/bin/env python3
"""Regenerates the table of DESIGN.md section 11.1 from seeded/*/meta.json + detection.json."""
import glob, json, os, re
ROOT = os.path.dirname(os.path.dirname(os.path.abspath(__file__)))
rows = []
for d in sorted(glob.glob(os.path.join(ROOT, "seeded", "*"))):
    sid = os.path.basename(d)
    meta = json.load(open(os.path.join(d, "meta.json")))
    det = json.load(open(os.path.join(d, "detection.json"))) if os.path.exists(os.path.join(d, "detection.json")) else None
    summ = re.sub(r"\s+", " ", meta.get("summary", "")).replace("|", "/")
    need = re.sub(r"\s+", " ", meta.get("needs_to_manifest", "")).replace("|", "/")
    if len(summ) > 230: summ = summ[:227] + "..."
    if len(need) > 200: need = need[:197] + "..."
    first = meta.get("first_run", "")
    if det is None:
        now = "not run yet"
    else:
        parts = []
        for c, v in det["checks"].items():
            sig = (v["first_signatures"] or [""])[0].replace("signature: ", "").replace("|", "/")
            parts.append("%s: %s" % (c, ("**caught** (%d VIOLATION lines; `%s`)" % (v["violation_lines"], sig[:110])) if v["exit"] == 1 and v["violation_lines"] else "missed (exit %d)" % v["exit"]))
        now = "; ".join(parts)
    if not first:
        first = "caught" if det and det.get("detected") else "missed"
        after = "—" if first == "caught" else now
        first_txt = now if first == "caught" else "missed"
    else:
        first_txt, after = first, now
    rows.append("| `%s` | %s — *needs:* %s | %s | %s | %s |" % (sid, summ, need, ", ".join(meta.get("checks", [meta["property"]])), first_txt, after))
p = os.path.join(ROOT, "DESIGN.md")
s = open(p).read()
a, b = s.index("<!-- seeded-table-begin -->"), s.index("<!-- seeded-table-end -->")
HDR = "| Seeded change | What it breaks / what it needs | Check | First run | After strengthening |\n|---|---|---|---|---|\n"
s = s[:a] + "<!-- seeded-table-begin -->\n" + HDR + "\n".join(rows) + "\n" + s[b:]
open(p, "w").write(s)
print(len(rows), "rows")
